/-
Lemmas for walking `parse_color`'s ordered choice: which alternatives fail at once on a given first
character, and the case-insensitive tags on their own spelling.
-/
import Pastel.Lemmas.ParseDigits2
namespace Pastel.P
open Pastel

theorem altList_cons_err (p : List Char → PR Col) (rest : List (List Char → PR Col)) (s : List Char)
    (h : p s = .err) : altList (p :: rest) s = altList rest s := by
  rw [altList]; simp only [h]

theorem altList_cons_ok (p : List Char → PR Col) (rest : List (List Char → PR Col)) (s r : List Char) (v : Col)
    (h : p s = .ok r v) : altList (p :: rest) s = .ok r v := by
  rw [altList]; simp only [h]

theorem allConsuming_err (p : List Char → PR Col) (s : List Char) (h : p s = .err) : allConsuming p s = .err := by
  unfold allConsuming; simp only [h]

theorem allConsuming_ok (p : List Char → PR Col) (s : List Char) (v : Col) (h : p s = .ok [] v) :
    allConsuming p s = .ok [] v := by
  unfold allConsuming; simp only [h]

/-- A string starting with a character that can start neither a number nor `nan`/`inf`. -/
structure NotNumStart (x : Char) : Prop where
  dig : isDigit x = false
  plus : x ≠ '+'
  minus : x ≠ '-'
  dot : x ≠ '.'
  n : lowerMatches 'n' x = false
  i : lowerMatches 'i' x = false
  blank : isBlank x = false
  r : x ≠ 'r'

theorem double_start (x : Char) (tl : List Char) (h : NotNumStart x) : double (x :: tl) = .err := by
  obtain ⟨h1, h2, h3, h4, h5, h6, _, _⟩ := h
  unfold double recognizeFloat many1 span tagNoCase
  simp [h1, h2, h3, h4, h5, h6]

theorem rgbPrefix_start (x : Char) (tl : List Char) (h : NotNumStart x) : rgbPrefix (x :: tl) = (false, x :: tl) := by
  have := h.r
  unfold rgbPrefix tag
  simp [List.isPrefixOf, Ne.symm this]

theorem parseNumericRgb_start (x : Char) (tl : List Char) (h : NotNumStart x) : parseNumericRgb (x :: tl) = .err := by
  unfold parseNumericRgb
  rw [rgbPrefix_start x tl h]
  simp [three, space0, h.blank, number, double_start x tl h, PR.bind]

theorem parsePercentageRgb_start (x : Char) (tl : List Char) (h : NotNumStart x) : parsePercentageRgb (x :: tl) = .err := by
  unfold parsePercentageRgb
  rw [rgbPrefix_start x tl h]
  simp [three, space0, h.blank, percentage, double_start x tl h, PR.bind]

theorem parseHex_start (x : Char) (tl : List Char) (h : isHexDigit x = false) (h' : x ≠ '#') : parseHex (x :: tl) = .err := by
  unfold parseHex stripHash many1 span
  simp [h, h']

theorem tag_head_ne (t : Char) (ts : List Char) (x : Char) (tl : List Char) (h : x ≠ t) : tag (t :: ts) (x :: tl) = .err := by
  unfold tag
  simp [List.isPrefixOf, Ne.symm h]

theorem parseHsl_start (x : Char) (tl : List Char) (h : x ≠ 'h') : parseHsl (x :: tl) = .err := by
  unfold parseHsl tag2
  have e1 : tag ['h', 's', 'l', '('] (x :: tl) = .err := tag_head_ne 'h' _ x tl h
  have e2 : tag ['h', 's', 'l', 'a', '('] (x :: tl) = .err := tag_head_ne 'h' _ x tl h
  simp [e1, e2, PR.bind]

theorem parseHsv_start (x : Char) (tl : List Char) (h : x ≠ 'h') : parseHsv (x :: tl) = .err := by
  unfold parseHsv tag2
  have e1 : tag ['h', 's', 'v', '('] (x :: tl) = .err := tag_head_ne 'h' _ x tl h
  have e2 : tag ['h', 's', 'v', 'a', '('] (x :: tl) = .err := tag_head_ne 'h' _ x tl h
  simp [e1, e2, PR.bind]

theorem parseGray_start (x : Char) (tl : List Char) (h : x ≠ 'g') : parseGray (x :: tl) = .err := by
  unfold parseGray
  have e1 : tag ['g', 'r', 'a', 'y', '('] (x :: tl) = .err := tag_head_ne 'g' _ x tl h
  simp [e1, PR.bind]

theorem notNumStart_h : NotNumStart 'h' := ⟨by decide, by decide, by decide, by decide, by decide, by decide, by decide, by decide⟩
theorem notNumStart_l : NotNumStart 'l' := ⟨by decide, by decide, by decide, by decide, by decide, by decide, by decide, by decide⟩
theorem notNumStart_g : NotNumStart 'g' := ⟨by decide, by decide, by decide, by decide, by decide, by decide, by decide, by decide⟩
theorem notNumStart_o : NotNumStart 'o' := ⟨by decide, by decide, by decide, by decide, by decide, by decide, by decide, by decide⟩

theorem optCie_l (tl : List Char) : optCie ('l' :: tl) = .ok ('l' :: tl) ('l' :: tl) := by
  have l1 : lowerMatches 'c' 'l' = false := by decide
  unfold optCie tagNoCase
  simp [l1]

theorem tagNoCase_lab (X : List Char) : tagNoCase "lab(".toList ('l' :: 'a' :: 'b' :: '(' :: X) = .ok X () := by
  have l1 : lowerMatches 'l' 'l' = true := by decide
  have l2 : lowerMatches 'a' 'a' = true := by decide
  have l3 : lowerMatches 'b' 'b' = true := by decide
  have l4 : lowerMatches '(' '(' = true := by decide
  have u1 : Char.utf8Size 'l' = 1 := by decide
  have u2 : Char.utf8Size 'a' = 1 := by decide
  have u3 : Char.utf8Size 'b' = 1 := by decide
  have u4 : Char.utf8Size '(' = 1 := by decide
  unfold tagNoCase
  simp [l1, l2, l3, l4, u1, u2, u3, u4, dropBytes, List.zip]
  omega


theorem angle_digits_close (d : Char) (ds : List Char) (hd : (d :: ds).all isDigit = true) :
    angle ((d :: ds) ++ [')']) = .ok [')'] (digitsVal (d :: ds)) := by
  unfold angle double
  rw [recognizeFloat_digits d ds ')' [] hd (Or.inr rfl)]
  simp [tag, List.isPrefixOf, digitsVal]

/-- `L,C,H)` read by the shape of `lch(`. -/
theorem three_num_num_angle (a : Char) (as : List Char) (b : Char) (bs : List Char) (c : Char) (cs : List Char)
    (sp : List Char) (hsp : sp = [] ∨ sp = [' '])
    (ha : (a :: as).all isDigit = true) (hb : (b :: bs).all isDigit = true) (hc : (c :: cs).all isDigit = true) :
    three number number angle true ((a :: as) ++ ',' :: (sp ++ ((b :: bs) ++ ',' :: (sp ++ ((c :: cs) ++ [')']))))) =
      .ok [] (digitsVal (a :: as), digitsVal (b :: bs), digitsVal (c :: cs), 1.0) := by
  have hda : isDigit a = true := by simp only [List.all_cons, Bool.and_eq_true] at ha; exact ha.1
  have hdb : isDigit b = true := by simp only [List.all_cons, Bool.and_eq_true] at hb; exact hb.1
  have hdc : isDigit c = true := by simp only [List.all_cons, Bool.and_eq_true] at hc; exact hc.1
  unfold three
  rw [show (a :: as) ++ ',' :: (sp ++ ((b :: bs) ++ ',' :: (sp ++ ((c :: cs) ++ [')'])))) =
      a :: (as ++ ',' :: (sp ++ ((b :: bs) ++ ',' :: (sp ++ ((c :: cs) ++ [')']))))) from rfl,
    space0_digit a _ hda,
    show a :: (as ++ ',' :: (sp ++ ((b :: bs) ++ ',' :: (sp ++ ((c :: cs) ++ [')']))))) =
      (a :: as) ++ ',' :: (sp ++ ((b :: bs) ++ ',' :: (sp ++ ((c :: cs) ++ [')'])))) from rfl,
    number_digits a as ',' _ ha (Or.inl rfl)]
  simp only [PR.bind]
  rw [show sp ++ ((b :: bs) ++ ',' :: (sp ++ ((c :: cs) ++ [')']))) = sp ++ b :: (bs ++ ',' :: (sp ++ ((c :: cs) ++ [')']))) from rfl,
    separator_comma sp hsp b _ hdb]
  simp only []
  rw [show b :: (bs ++ ',' :: (sp ++ ((c :: cs) ++ [')']))) = (b :: bs) ++ ',' :: (sp ++ ((c :: cs) ++ [')'])) from rfl,
    number_digits b bs ',' _ hb (Or.inl rfl)]
  simp only []
  rw [show sp ++ ((c :: cs) ++ [')']) = sp ++ c :: (cs ++ [')']) from rfl, separator_comma sp hsp c _ hdc]
  simp only []
  rw [show c :: (cs ++ [')']) = (c :: cs) ++ [')'] from rfl, angle_digits_close c cs hc]
  simp only []
  rw [alpha_close]
  simp [space0, char, isBlank]

theorem tagNoCase_lch (X : List Char) : tagNoCase "lch(".toList ('l' :: 'c' :: 'h' :: '(' :: X) = .ok X () := by
  have l1 : lowerMatches 'l' 'l' = true := by decide
  have l2 : lowerMatches 'c' 'c' = true := by decide
  have l3 : lowerMatches 'h' 'h' = true := by decide
  have l4 : lowerMatches '(' '(' = true := by decide
  have u1 : Char.utf8Size 'l' = 1 := by decide
  have u2 : Char.utf8Size 'c' = 1 := by decide
  have u3 : Char.utf8Size 'h' = 1 := by decide
  have u4 : Char.utf8Size '(' = 1 := by decide
  unfold tagNoCase
  simp [l1, l2, l3, l4, u1, u2, u3, u4, dropBytes, List.zip]
  omega

theorem tagNoCase_lab_lch (X : List Char) : tagNoCase "lab(".toList ('l' :: 'c' :: X) = .err := by
  have l1 : lowerMatches 'l' 'l' = true := by decide
  have l2 : lowerMatches 'a' 'c' = false := by decide
  unfold tagNoCase
  simp [l1, l2, List.zip]

theorem parseLab_lch (X : List Char) : parseLab ('l' :: 'c' :: X) = .err := by
  unfold parseLab
  rw [optCie_l]
  simp only [PR.bind, tagNoCase_lab_lch]

theorem tagNoCase_oklab_l (X : List Char) : tagNoCase "oklab(".toList ('l' :: X) = .err := by
  have l1 : lowerMatches 'o' 'l' = false := by decide
  unfold tagNoCase
  simp [l1, List.zip]

theorem parseOklab_l (X : List Char) : parseOklab ('l' :: X) = .err := by
  unfold parseOklab
  simp only [PR.bind, tagNoCase_oklab_l]

theorem tagNoCase_oklab (X : List Char) : tagNoCase "oklab(".toList ('o' :: 'k' :: 'l' :: 'a' :: 'b' :: '(' :: X) = .ok X () := by
  have l0 : lowerMatches 'o' 'o' = true := by decide
  have lk : lowerMatches 'k' 'k' = true := by decide
  have l1 : lowerMatches 'l' 'l' = true := by decide
  have l2 : lowerMatches 'a' 'a' = true := by decide
  have l3 : lowerMatches 'b' 'b' = true := by decide
  have l4 : lowerMatches '(' '(' = true := by decide
  have u0 : Char.utf8Size 'o' = 1 := by decide
  have uk : Char.utf8Size 'k' = 1 := by decide
  have u1 : Char.utf8Size 'l' = 1 := by decide
  have u2 : Char.utf8Size 'a' = 1 := by decide
  have u3 : Char.utf8Size 'b' = 1 := by decide
  have u4 : Char.utf8Size '(' = 1 := by decide
  unfold tagNoCase
  simp [l0, lk, l1, l2, l3, l4, u0, uk, u1, u2, u3, u4, dropBytes, List.zip]
  omega

theorem optCie_o (tl : List Char) : optCie ('o' :: tl) = .ok ('o' :: tl) ('o' :: tl) := by
  have l1 : lowerMatches 'c' 'o' = false := by decide
  unfold optCie tagNoCase
  simp [l1]

theorem parseLab_o (X : List Char) : parseLab ('o' :: X) = .err := by
  have l1 : lowerMatches 'l' 'o' = false := by decide
  unfold parseLab
  rw [optCie_o]
  simp only [PR.bind]
  unfold tagNoCase
  simp [l1, List.zip]


end Pastel.P
