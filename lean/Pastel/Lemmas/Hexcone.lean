/-
The hexcone model in exact arithmetic: `Color → RGBA<f64>` inverts `RGBA<u8> → Color`.
All statements are about the model's definitions read at `ℝ`.
-/
import Pastel.RealInst
import Pastel.Model.Color
import Pastel.Lemmas.RealColor

namespace Pastel

/-- `fmod` at `ℝ` for a non-negative dividend and a positive divisor. -/
theorem real_fmod_nonneg (x y : ℝ) (hx : 0 ≤ x) (hy : 0 < y) :
    Sc.fmod x y = x - y * (⌊x / y⌋ : ℝ) := by
  show x - y * ((rtrunc (x / y) : ℤ) : ℝ) = _
  unfold rtrunc
  have : 0 ≤ x / y := div_nonneg hx (le_of_lt hy)
  simp [this]

/-- `fmod x y = x − n·y` when `n·y ≤ x < (n+1)·y`. -/
theorem real_fmod_band (x y : ℝ) (n : ℕ) (hy : 0 < y) (h1 : (n : ℝ) * y ≤ x) (h2 : x < ((n : ℝ) + 1) * y) :
    Sc.fmod x y = x - (n : ℝ) * y := by
  have hx : 0 ≤ x := le_trans (mul_nonneg (Nat.cast_nonneg n) (le_of_lt hy)) h1
  rw [real_fmod_nonneg x y hx hy]
  have hfl : ⌊x / y⌋ = (n : ℤ) := by
    rw [Int.floor_eq_iff]
    constructor
    · rw [le_div_iff₀ hy]; exact_mod_cast h1
    · rw [div_lt_iff₀ hy]; push_cast; exact h2
  rw [hfl]; push_cast; ring

/-- `fmod` of a small negative number (`−y < x < 0`) is the number itself. -/
theorem real_fmod_neg_small (x y : ℝ) (hy : 0 < y) (h1 : -y < x) (h2 : x < 0) : Sc.fmod x y = x := by
  show x - y * ((rtrunc (x / y) : ℤ) : ℝ) = x
  unfold rtrunc
  have hneg : ¬ 0 ≤ x / y := by
    rw [not_le]; exact div_neg_of_neg_of_pos h2 hy
  simp only [hneg, if_false]
  have hc : ⌈x / y⌉ = 0 := by
    rw [Int.ceil_eq_iff]
    constructor
    · simp only [Int.cast_zero, zero_sub]
      rw [lt_div_iff₀ hy]; linarith
    · simp only [Int.cast_zero]
      exact le_of_lt (div_neg_of_neg_of_pos h2 hy)
  rw [hc]; simp

/-- `mod_positive(x, y)` for `0 ≤ x < y` is `x`. -/
theorem real_modPositive_id (x y : ℝ) (hy : 0 < y) (h0 : 0 ≤ x) (h1 : x < y) : modPositive x y = x := by
  unfold modPositive
  have e1 : Sc.fmod x y = x := by
    have := real_fmod_band x y 0 hy (by simpa using h0) (by simpa using h1)
    simpa using this
  rw [e1]
  have := real_fmod_band (x + y) y 1 hy (by simp; linarith) (by norm_num; linarith)
  rw [this]; ring

/-- `mod_positive(x, y)` for `−y < x < 0` is `x + y`. -/
theorem real_modPositive_neg (x y : ℝ) (hy : 0 < y) (h0 : -y < x) (h1 : x < 0) : modPositive x y = x + y := by
  unfold modPositive
  rw [real_fmod_neg_small x y hy h0 h1]
  have := real_fmod_band (x + y) y 0 hy (by simp; linarith) (by simp; linarith)
  rw [this]; simp

/-- `Hue::value` is the identity on `[0, 360)`. -/
theorem real_hueValue_id (h : ℝ) (h0 : 0 ≤ h) (h1 : h < 360) : hueValue h = h := by
  unfold hueValue
  have hne : Sc.feq h (360 : ℝ) = false := by
    cases hq : Sc.feq h (360 : ℝ)
    · rfl
    · have := (real_feq _ _).mp hq
      simp only [real_lit] at this
      norm_num at this
      linarith
  rw [hne]
  simp only [Bool.false_eq_true, if_false, real_lit]
  exact real_modPositive_id h 360 (by norm_num) h0 (by exact_mod_cast h1)

/-- The float channels of a colour whose hue is `60·t` with `0 ≤ t < 6`, in terms of the sector. -/
theorem toRgbaFloat_sector (c : Color ℝ) (t : ℝ) (ht0 : 0 ≤ t) (ht6 : t < 6) (hh : c.hue = 60 * t) :
    let chr := (1 - |2 * c.light - 1|) * c.sat
    let m := c.light - chr / 2
    (t < 1 → toRgbaFloat c = ⟨chr + m, chr * t + m, m, c.alpha⟩) ∧
    (1 ≤ t → t < 2 → toRgbaFloat c = ⟨chr * (2 - t) + m, chr + m, m, c.alpha⟩) ∧
    (2 ≤ t → t < 3 → toRgbaFloat c = ⟨m, chr + m, chr * (t - 2) + m, c.alpha⟩) ∧
    (3 ≤ t → t < 4 → toRgbaFloat c = ⟨m, chr * (4 - t) + m, chr + m, c.alpha⟩) ∧
    (4 ≤ t → t < 5 → toRgbaFloat c = ⟨chr * (t - 4) + m, m, chr + m, c.alpha⟩) ∧
    (5 ≤ t → toRgbaFloat c = ⟨chr + m, m, chr * (6 - t) + m, c.alpha⟩) := by
  have hhue : hueValue c.hue = 60 * t := by
    rw [hh]; exact real_hueValue_id (60 * t) (by linarith) (by linarith)
  have hS : hueValue c.hue / (60.0 : ℝ) = t := by rw [hhue]; norm_num
  simp only []
  have e01 : t < 2 → Sc.fmod t (2 : ℝ) = t := by
    intro h
    have := real_fmod_band t 2 0 (by norm_num) (by rw [Nat.cast_zero, zero_mul]; exact ht0)
      (by rw [Nat.cast_zero, zero_add, one_mul]; exact h)
    rw [this, Nat.cast_zero, zero_mul, sub_zero]
  have e23 : 2 ≤ t → t < 4 → Sc.fmod t (2 : ℝ) = t - 2 := by
    intro h1 h2
    have := real_fmod_band t 2 1 (by norm_num) (by rw [Nat.cast_one, one_mul]; exact h1)
      (by rw [Nat.cast_one]; linarith)
    rw [this, Nat.cast_one, one_mul]
  have e45 : 4 ≤ t → Sc.fmod t (2 : ℝ) = t - 4 := by
    intro h1
    have := real_fmod_band t 2 2 (by norm_num) (by push_cast; linarith) (by push_cast; linarith)
    rw [this]; push_cast; ring
  refine ⟨?_, ?_, ?_, ?_, ?_, ?_⟩
  · intro h
    unfold toRgbaFloat
    simp only [hS, real_abs]
    norm_num [h, e01 (by linarith)]
    have : |t - 1| = 1 - t := by rw [abs_of_nonpos (by linarith)]; ring
    rw [this]; first | (left; ring) | ring
  · intro h1 h2
    unfold toRgbaFloat
    simp only [hS, real_abs]
    have hn : ¬ t < 1 := not_lt.mpr h1
    norm_num [hn, h1, h2, e01 h2]
    have : |t - 1| = t - 1 := abs_of_nonneg (by linarith)
    rw [this]; first | (left; ring) | ring
  · intro h1 h2
    unfold toRgbaFloat
    simp only [hS, real_abs]
    have hn1 : ¬ t < 1 := by linarith
    have hn2 : ¬ t < 2 := by linarith
    norm_num [hn1, hn2, h1, h2, e23 h1 (by linarith)]
    have : |t - 2 - 1| = 1 - (t - 2) := by rw [abs_of_nonpos (by linarith)]; ring
    rw [this]; first | (left; ring) | ring
  · intro h1 h2
    unfold toRgbaFloat
    simp only [hS, real_abs]
    have hn1 : ¬ t < 1 := by linarith
    have hn2 : ¬ t < 2 := by linarith
    have hn3 : ¬ t < 3 := by linarith
    have h2' : (2 : ℝ) ≤ t := by linarith
    norm_num [hn1, hn2, hn3, h1, h2, h2', e23 (by linarith) h2]
    have : |t - 2 - 1| = (t - 2) - 1 := abs_of_nonneg (by linarith)
    rw [this]; first | (left; ring) | ring
  · intro h1 h2
    unfold toRgbaFloat
    simp only [hS, real_abs]
    have hn1 : ¬ t < 1 := by linarith
    have hn2 : ¬ t < 2 := by linarith
    have hn3 : ¬ t < 3 := by linarith
    have hn4 : ¬ t < 4 := by linarith
    norm_num [hn1, hn2, hn3, hn4, h1, h2, e45 h1]
    have : |t - 4 - 1| = 1 - (t - 4) := by rw [abs_of_nonpos (by linarith)]; ring
    rw [this]; first | (left; ring) | ring
  · intro h1
    unfold toRgbaFloat
    simp only [hS, real_abs]
    have hn1 : ¬ t < 1 := by linarith
    have hn2 : ¬ t < 2 := by linarith
    have hn3 : ¬ t < 3 := by linarith
    have hn4 : ¬ t < 4 := by linarith
    have hn5 : ¬ t < 5 := by linarith
    norm_num [hn1, hn2, hn3, hn4, hn5, e45 (by linarith)]
    have : |t - 4 - 1| = (t - 4) - 1 := abs_of_nonneg (by linarith)
    rw [this]; first | (left; ring) | ring

end Pastel

namespace Pastel

/-- The hexcone hue (in units of 60°) of a chromatic RGB triple, as `From<&RGBA<u8>>` computes it. -/
noncomputable def hexHue (R G B : ℝ) : ℝ :=
  let M := max (max R G) B
  let mn := min (min R G) B
  let C := M - mn
  if R = M then (if B ≤ G then (G - B) / C else (G - B) / C + 6)
  else if G = M then (B - R) / C + 2
  else (R - G) / C + 4

/-- **Hexcone round trip in exact arithmetic** for a chromatic triple in `[0,1]³`: a colour whose
stored fields are the hexcone hue, saturation `C / (1 − |2l − 1|)` and lightness `(M + m)/2` has
exactly the float channels `(R, G, B)`. -/
theorem hexcone_real (R G B al : ℝ) (c : Color ℝ)
    (hR0 : 0 ≤ R) (hG0 : 0 ≤ G) (hB0 : 0 ≤ B) (hR1 : R ≤ 1) (hG1 : G ≤ 1) (hB1 : B ≤ 1)
    (hC : min (min R G) B < max (max R G) B)
    (hh : c.hue = 60 * hexHue R G B)
    (hl : c.light = (max (max R G) B + min (min R G) B) / 2)
    (hs : c.sat = (max (max R G) B - min (min R G) B) / (1 - |2 * c.light - 1|))
    (ha : c.alpha = al) :
    toRgbaFloat c = ⟨R, G, B, al⟩ := by
  set M := max (max R G) B with hM
  set mn := min (min R G) B with hmn
  have hMR : R ≤ M := le_trans (le_max_left R G) (le_max_left _ B)
  have hMG : G ≤ M := le_trans (le_max_right R G) (le_max_left _ B)
  have hMB : B ≤ M := le_max_right _ B
  have hmR : mn ≤ R := le_trans (min_le_left _ B) (min_le_left R G)
  have hmG : mn ≤ G := le_trans (min_le_left _ B) (min_le_right R G)
  have hmB : mn ≤ B := min_le_right _ B
  have hM1 : M ≤ 1 := max_le (max_le hR1 hG1) hB1
  have hm0 : 0 ≤ mn := le_min (le_min hR0 hG0) hB0
  have hCpos : 0 < M - mn := by linarith
  -- the denominator 1 − |2l − 1| is at least the chroma
  have hden : M - mn ≤ 1 - |2 * c.light - 1| := by
    rw [hl]
    have : (2 : ℝ) * ((M + mn) / 2) - 1 = M + mn - 1 := by ring
    rw [this]
    rcases le_total 0 (M + mn - 1) with h | h
    · rw [abs_of_nonneg h]; linarith
    · rw [abs_of_nonpos h]; linarith
  have hdpos : 0 < 1 - |2 * c.light - 1| := lt_of_lt_of_le hCpos hden
  have hchr : (1 - |2 * c.light - 1|) * c.sat = M - mn := by
    rw [hs]; field_simp
  have hm : c.light - (M - mn) / 2 = mn := by rw [hl]; ring
  -- which channel is the maximum / minimum
  have hcases : M = R ∨ M = G ∨ M = B := by
    rcases max_choice (max R G) B with h | h
    · rcases max_choice R G with h' | h'
      · left; rw [hM, h, h']
      · right; left; rw [hM, h, h']
    · right; right; rw [hM, h]
  unfold hexHue at hh
  simp only [← hM, ← hmn] at hh
  by_cases hRM : R = M
  · simp only [hRM, if_true] at hh
    by_cases hBG : B ≤ G
    · -- sector 0 (or the boundary t = 1): B is the minimum
      simp only [hBG, if_true] at hh
      have hBmin : B = mn := by
        apply le_antisymm _ hmB
        rw [hmn]; exact le_min (le_min (by rw [hRM]; exact hMB) hBG) (le_refl B)
      have ht0 : 0 ≤ (G - B) / (M - mn) := div_nonneg (by linarith) (le_of_lt hCpos)
      have ht1 : (G - B) / (M - mn) ≤ 1 := by rw [div_le_one hCpos]; linarith
      have hsec := toRgbaFloat_sector c ((G - B) / (M - mn)) ht0 (by linarith) hh
      simp only [hchr, hm] at hsec
      rcases lt_or_eq_of_le ht1 with hlt | heq
      · rw [hsec.1 hlt, ha]
        congr 1
        · rw [hRM]; ring
        · field_simp; rw [hBmin]; ring
        · exact hBmin.symm
      · rw [hsec.2.1 (le_of_eq heq.symm) (by linarith), ha]
        have hGM : G = M := by
          have := (div_eq_one_iff_eq (ne_of_gt hCpos)).mp heq
          linarith
        congr 1
        · rw [heq, hRM]; ring
        · rw [hGM]; ring
        · exact hBmin.symm
    · -- sector 5: G is the minimum
      simp only [hBG, if_false] at hh
      have hGB : G < B := not_le.mp hBG
      have hGmin : G = mn := by
        apply le_antisymm _ hmG
        rw [hmn]; exact le_min (le_min (by rw [hRM]; exact hMG) (le_refl G)) (le_of_lt hGB)
      have hu0 : -1 ≤ (G - B) / (M - mn) := by rw [le_div_iff₀ hCpos]; linarith
      have hu1 : (G - B) / (M - mn) < 0 := div_neg_of_neg_of_pos (by linarith) hCpos
      have hsec := toRgbaFloat_sector c ((G - B) / (M - mn) + 6) (by linarith) (by linarith) hh
      simp only [hchr, hm] at hsec
      rw [hsec.2.2.2.2.2 (by linarith), ha]
      congr 1
      · rw [hRM]; ring
      · exact hGmin.symm
      · have : (M - mn) * (6 - ((G - B) / (M - mn) + 6)) = B - G := by field_simp; ring
        rw [this, hGmin]; ring
  · simp only [hRM, if_false] at hh
    have hRlt : R < M := lt_of_le_of_ne hMR hRM
    by_cases hGM : G = M
    · simp only [hGM, if_true] at hh
      rcases le_or_gt R B with hRB | hBR
      · -- sectors 2 / boundary 3: R is the minimum
        have hRmin : R = mn := by
          apply le_antisymm _ hmR
          rw [hmn]; exact le_min (le_min (le_refl R) (by rw [hGM]; exact le_of_lt hRlt)) hRB
        have hu0 : 0 ≤ (B - R) / (M - mn) := div_nonneg (by linarith) (le_of_lt hCpos)
        have hu1 : (B - R) / (M - mn) ≤ 1 := by rw [div_le_one hCpos]; linarith
        have hsec := toRgbaFloat_sector c ((B - R) / (M - mn) + 2) (by linarith) (by linarith) hh
        simp only [hchr, hm] at hsec
        rcases lt_or_eq_of_le hu1 with hlt | heq
        · rw [hsec.2.2.1 (by linarith) (by linarith), ha]
          congr 1
          · exact hRmin.symm
          · rw [hGM]; ring
          · have : (M - mn) * ((B - R) / (M - mn) + 2 - 2) = B - R := by field_simp; ring
            rw [this, hRmin]; ring
        · have hBM : B = M := by
            have := (div_eq_one_iff_eq (ne_of_gt hCpos)).mp heq
            linarith
          rw [hsec.2.2.2.1 (by linarith) (by linarith), ha]
          congr 1
          · exact hRmin.symm
          · rw [heq, hGM]; ring
          · rw [hBM]; ring
      · -- sector 1: B is the minimum
        have hBmin : B = mn := by
          apply le_antisymm _ hmB
          rw [hmn]; exact le_min (le_min (le_of_lt hBR) (by rw [hGM]; exact hMB)) (le_refl B)
        have hu0 : -1 < (B - R) / (M - mn) := by rw [lt_div_iff₀ hCpos]; linarith
        have hu1 : (B - R) / (M - mn) < 0 := div_neg_of_neg_of_pos (by linarith) hCpos
        have hsec := toRgbaFloat_sector c ((B - R) / (M - mn) + 2) (by linarith) (by linarith) hh
        simp only [hchr, hm] at hsec
        rw [hsec.2.1 (by linarith) (by linarith), ha]
        congr 1
        · have : (M - mn) * (2 - ((B - R) / (M - mn) + 2)) = R - B := by field_simp; ring
          rw [this, hBmin]; ring
        · rw [hGM]; ring
        · exact hBmin.symm
    · simp only [hGM, if_false] at hh
      have hGlt : G < M := lt_of_le_of_ne hMG hGM
      have hBM : B = M := by
        rcases hcases with h | h | h
        · exact absurd h.symm hRM
        · exact absurd h.symm hGM
        · exact h.symm
      rcases le_or_gt G R with hGR | hRG
      · -- sectors 4 / boundary 5: G is the minimum
        have hGmin : G = mn := by
          apply le_antisymm _ hmG
          rw [hmn]; exact le_min (le_min hGR (le_refl G)) (by rw [hBM]; exact le_of_lt hGlt)
        have hu0 : 0 ≤ (R - G) / (M - mn) := div_nonneg (by linarith) (le_of_lt hCpos)
        have hu1 : (R - G) / (M - mn) < 1 := by rw [div_lt_one hCpos]; linarith
        have hsec := toRgbaFloat_sector c ((R - G) / (M - mn) + 4) (by linarith) (by linarith) hh
        simp only [hchr, hm] at hsec
        rw [hsec.2.2.2.2.1 (by linarith) (by linarith), ha]
        congr 1
        · have : (M - mn) * ((R - G) / (M - mn) + 4 - 4) = R - G := by field_simp; ring
          rw [this, hGmin]; ring
        · exact hGmin.symm
        · rw [hBM]; ring
      · -- sector 3: R is the minimum
        have hRmin : R = mn := by
          apply le_antisymm _ hmR
          rw [hmn]; exact le_min (le_min (le_refl R) (le_of_lt hRG)) (by rw [hBM]; exact le_of_lt hRlt)
        have hu0 : -1 < (R - G) / (M - mn) := by rw [lt_div_iff₀ hCpos]; linarith
        have hu1 : (R - G) / (M - mn) < 0 := div_neg_of_neg_of_pos (by linarith) hCpos
        have hsec := toRgbaFloat_sector c ((R - G) / (M - mn) + 4) (by linarith) (by linarith) hh
        simp only [hchr, hm] at hsec
        rw [hsec.2.2.2.1 (by linarith) (by linarith), ha]
        congr 1
        · exact hRmin.symm
        · have : (M - mn) * (4 - ((R - G) / (M - mn) + 4)) = G - R := by field_simp; ring
          rw [this, hRmin]; ring
        · rw [hBM]; ring

end Pastel

namespace Pastel

theorem u8_max_toNat (a b : UInt8) : (max a b).toNat = max a.toNat b.toNat := by
  show (if a ≤ b then b else a).toNat = _
  by_cases h : a ≤ b
  · simp only [h, if_true]; have := UInt8.le_iff_toNat_le.mp h; omega
  · simp only [h, if_false]; have : ¬ a.toNat ≤ b.toNat := fun h' => h (UInt8.le_iff_toNat_le.mpr h'); omega

theorem u8_min_toNat (a b : UInt8) : (min a b).toNat = min a.toNat b.toNat := by
  show (if a ≤ b then a else b).toNat = _
  by_cases h : a ≤ b
  · simp only [h, if_true]; have := UInt8.le_iff_toNat_le.mp h; omega
  · simp only [h, if_false]; have : ¬ a.toNat ≤ b.toNat := fun h' => h (UInt8.le_iff_toNat_le.mpr h'); omega

/-- The channel value `k / 255` of a byte. -/
noncomputable def chan (x : UInt8) : ℝ := (x.toNat : ℝ) / 255

theorem chan_range (x : UInt8) : 0 ≤ chan x ∧ chan x ≤ 1 := by
  unfold chan
  have h := x.toNat_lt
  have h1 : (x.toNat : ℝ) ≤ 255 := by
    have : x.toNat ≤ 255 := by omega
    exact_mod_cast this
  constructor
  · positivity
  · rw [div_le_one (by norm_num)]; exact h1

/-- `max (min 1 x) 0 = x` on `[0,1]`. -/
theorem max_min_id (x : ℝ) (h0 : 0 ≤ x) (h1 : x ≤ 1) : max (min 1 x) 0 = x := by
  rw [min_eq_right h1, max_eq_left h0]

/-- **`Color → RGBA<f64>` inverts `RGBA<u8> → Color` in exact arithmetic, for all 2²⁴ colours at
once**: the float channels of `from_rgba(r, g, b, α)` are exactly `r/255, g/255, b/255`. -/
theorem fromRgba8_toRgbaFloat (r g b : UInt8) (a : ℝ) :
    toRgbaFloat (fromRgba8 r g b a : Color ℝ) = ⟨chan r, chan g, chan b, max (min 1 a) 0⟩ := by
  have hr := chan_range r
  have hg := chan_range g
  have hb := chan_range b
  have hMnat : (max (max r g) b).toNat = max (max r.toNat g.toNat) b.toNat := by
    rw [u8_max_toNat, u8_max_toNat]
  have hmnat : (min (min r g) b).toNat = min (min r.toNat g.toNat) b.toNat := by
    rw [u8_min_toNat, u8_min_toNat]
  have hM : ((max (max r g) b).toNat : ℝ) = 255 * max (max (chan r) (chan g)) (chan b) := by
    unfold chan
    rw [hMnat]; push_cast
    rw [max_div_div_right (by norm_num), max_div_div_right (by norm_num)]
    field_simp
  have hm : ((min (min r g) b).toNat : ℝ) = 255 * min (min (chan r) (chan g)) (chan b) := by
    unfold chan
    rw [hmnat]; push_cast
    rw [min_div_div_right (by norm_num), min_div_div_right (by norm_num)]
    field_simp
  have hle : min (min r g) b ≤ max (max r g) b := by
    rw [UInt8.le_iff_toNat_le, hMnat, hmnat]; omega
  have hlen : (min (min r g) b).toNat ≤ (max (max r g) b).toNat := UInt8.le_iff_toNat_le.mp hle
  have hsub : ((max (max r g) b - min (min r g) b).toNat : ℝ) =
      255 * (max (max (chan r) (chan g)) (chan b) - min (min (chan r) (chan g)) (chan b)) := by
    rw [UInt8.toNat_sub_of_le _ _ hle]
    push_cast [Nat.cast_sub hlen]
    rw [hM, hm]; ring
  have hcr : (r.toNat : ℝ) = 255 * chan r := by unfold chan; field_simp
  have hcg : (g.toNat : ℝ) = 255 * chan g := by unfold chan; field_simp
  have hcb : (b.toNat : ℝ) = 255 * chan b := by unfold chan; field_simp
  set M := max (max (chan r) (chan g)) (chan b) with hMdef
  set mn := min (min (chan r) (chan g)) (chan b) with hmdef
  have hm0 : 0 ≤ mn := le_min (le_min hr.1 hg.1) hb.1
  have hM1 : M ≤ 1 := max_le (max_le hr.2 hg.2) hb.2
  have hmM : mn ≤ M := le_trans (le_trans (min_le_left _ _) (min_le_left _ _)) (le_trans (le_max_left _ _) (le_max_left _ _))
  -- the lightness field, for every colour
  have hlight : (fromRgba8 r g b a : Color ℝ).light = (M + mn) / 2 := by
    simp only [fromRgba8, fromHsla, clamp, u8f, real_fmin, real_fmax, real_ofNat, real_lit]
    push_cast
    rw [hM, hm]
    have : (255 * M + 255 * mn) / (255 * 2) = (M + mn) / 2 := by field_simp
    rw [this]
    exact max_min_id _ (by linarith) (by linarith)
  have halpha : (fromRgba8 r g b a : Color ℝ).alpha = max (min 1 a) 0 := by
    simp only [fromRgba8, fromHsla, clamp, real_fmin, real_fmax, real_lit]
    push_cast; rfl
  by_cases hgray : max (max r g) b - min (min r g) b = 0
  · -- achromatic: r = g = b
    have h0 : (max (max r g) b - min (min r g) b).toNat = 0 := by rw [hgray]; rfl
    have hMm : M = mn := by
      have : ((max (max r g) b - min (min r g) b).toNat : ℝ) = 0 := by rw [h0]; simp
      rw [hsub] at this
      linarith
    have hsat : (fromRgba8 r g b a : Color ℝ).sat = 0 := by
      simp only [fromRgba8, fromHsla, clamp, hgray, if_true, real_fmin, real_fmax, real_lit]
      push_cast
      norm_num
    have h := toRgbaFloat_achromatic (fromRgba8 r g b a : Color ℝ) (by rw [hsat]; ring)
    -- all three channels equal M = mn
    have hrM : chan r = M := le_antisymm (le_trans (le_max_left _ _) (le_max_left _ _))
      (by rw [hMm]; exact le_trans (min_le_left _ _) (min_le_left _ _))
    have hgM : chan g = M := le_antisymm (le_trans (le_max_right _ _) (le_max_left _ _))
      (by rw [hMm]; exact le_trans (min_le_left _ _) (min_le_right _ _))
    have hbM : chan b = M := le_antisymm (le_max_right _ _) (by rw [hMm]; exact min_le_right _ _)
    have hl : (fromRgba8 r g b a : Color ℝ).light = M := by rw [hlight, ← hMm]; ring
    have : toRgbaFloat (fromRgba8 r g b a : Color ℝ) =
        ⟨(toRgbaFloat (fromRgba8 r g b a : Color ℝ)).x, (toRgbaFloat (fromRgba8 r g b a : Color ℝ)).y,
         (toRgbaFloat (fromRgba8 r g b a : Color ℝ)).z, (fromRgba8 r g b a : Color ℝ).alpha⟩ := rfl
    rw [this, h.1, h.2.1, h.2.2, hl, hrM, hgM, hbM, halpha]
  · -- chromatic
    have hCnat : (min (min r g) b).toNat < (max (max r g) b).toNat := by
      have hne : (max (max r g) b - min (min r g) b).toNat ≠ 0 := by
        intro h0; apply hgray; rw [← UInt8.toNat_inj]; exact h0
      rw [UInt8.toNat_sub_of_le _ _ hle] at hne
      omega
    have hC : mn < M := by
      have : ((min (min r g) b).toNat : ℝ) < ((max (max r g) b).toNat : ℝ) := by exact_mod_cast hCnat
      rw [hM, hm] at this
      linarith
    have hCpos : 0 < M - mn := by linarith
    have hdenpos : 0 < 1 - |2 * ((M + mn) / 2) - 1| := by
      have : (2 : ℝ) * ((M + mn) / 2) - 1 = M + mn - 1 := by ring
      rw [this]
      rcases le_total 0 (M + mn - 1) with h | h
      · rw [abs_of_nonneg h]; linarith
      · rw [abs_of_nonpos h]; linarith
    have hsatle : (M - mn) / (1 - |2 * ((M + mn) / 2) - 1|) ≤ 1 := by
      rw [div_le_one hdenpos]
      have : (2 : ℝ) * ((M + mn) / 2) - 1 = M + mn - 1 := by ring
      rw [this]
      rcases le_total 0 (M + mn - 1) with h | h
      · rw [abs_of_nonneg h]; linarith
      · rw [abs_of_nonpos h]; linarith
    have hsat : (fromRgba8 r g b a : Color ℝ).sat = (M - mn) / (1 - |2 * (fromRgba8 r g b a : Color ℝ).light - 1|) := by
      rw [hlight]
      simp only [fromRgba8, fromHsla, clamp, hgray, if_false, u8f, real_fmin, real_fmax, real_ofNat, real_lit, real_abs]
      push_cast
      rw [hsub, hM, hm]
      have e1 : 255 * (M - mn) / 255 = M - mn := by field_simp
      have e2 : 2 * ((255 * M + 255 * mn) / (255 * 2)) - 1 = 2 * ((M + mn) / 2) - 1 := by field_simp
      rw [e1, e2]
      exact max_min_id _ (div_nonneg (by linarith) (le_of_lt hdenpos)) hsatle
    have hrM : (r = max (max r g) b) ↔ chan r = M := by
      rw [← UInt8.toNat_inj]
      constructor
      · intro h
        have : (r.toNat : ℝ) = ((max (max r g) b).toNat : ℝ) := by rw [h]
        rw [hcr, hM] at this; linarith
      · intro h
        have : (r.toNat : ℝ) = ((max (max r g) b).toNat : ℝ) := by rw [hcr, hM, h]
        exact_mod_cast this
    have hgM : (g = max (max r g) b) ↔ chan g = M := by
      rw [← UInt8.toNat_inj]
      constructor
      · intro h
        have : (g.toNat : ℝ) = ((max (max r g) b).toNat : ℝ) := by rw [h]
        rw [hcg, hM] at this; linarith
      · intro h
        have : (g.toNat : ℝ) = ((max (max r g) b).toNat : ℝ) := by rw [hcg, hM, h]
        exact_mod_cast this
    have hgle : chan g ≤ M := le_trans (le_max_right _ _) (le_max_left _ _)
    have hble : chan b ≤ M := le_max_right _ _
    have hmg : mn ≤ chan g := le_trans (min_le_left _ _) (min_le_right _ _)
    have hmb : mn ≤ chan b := min_le_right _ _
    have hhue : (fromRgba8 r g b a : Color ℝ).hue = 60 * hexHue (chan r) (chan g) (chan b) := by
      simp only [fromRgba8, fromHsla, hueFrom, real_isFinite, if_true, hgray, if_false, u8f, real_ofNat, real_lit]
      push_cast
      rw [hsub, hcr, hcg, hcb]
      unfold hexHue
      simp only [← hMdef, ← hmdef]
      congr 1
      have q1 : (255 * chan g / 255 - 255 * chan b / 255) / (255 * (M - mn) / 255) = (chan g - chan b) / (M - mn) := by
        field_simp
      have q2 : (255 * chan b / 255 - 255 * chan r / 255) / (255 * (M - mn) / 255) = (chan b - chan r) / (M - mn) := by
        field_simp
      have q3 : (255 * chan r / 255 - 255 * chan g / 255) / (255 * (M - mn) / 255) = (chan r - chan g) / (M - mn) := by
        field_simp
      rw [q1, q2, q3]
      by_cases h1 : r = max (max r g) b
      · have h1' := hrM.mp h1
        rw [if_pos h1, if_pos h1']
        by_cases hBG : chan b ≤ chan g
        · simp only [hBG, if_true]
          have t0 : 0 ≤ (chan g - chan b) / (M - mn) := div_nonneg (by linarith) (le_of_lt hCpos)
          have t1 : (chan g - chan b) / (M - mn) < 6 := by
            have : (chan g - chan b) / (M - mn) ≤ 1 := by rw [div_le_one hCpos]; linarith
            linarith
          exact real_modPositive_id _ 6 (by norm_num) t0 t1
        · simp only [hBG, if_false]
          have hlt : chan g < chan b := not_le.mp hBG
          have t0 : -6 < (chan g - chan b) / (M - mn) := by
            have : -1 ≤ (chan g - chan b) / (M - mn) := by rw [le_div_iff₀ hCpos]; linarith
            linarith
          have t1 : (chan g - chan b) / (M - mn) < 0 := div_neg_of_neg_of_pos (by linarith) hCpos
          exact real_modPositive_neg _ 6 (by norm_num) t0 t1
      · have h1' : ¬ chan r = M := fun h => h1 (hrM.mpr h)
        rw [if_neg h1, if_neg h1']
        by_cases h2 : g = max (max r g) b
        · have h2' := hgM.mp h2
          rw [if_pos h2, if_pos h2']
        · have h2' : ¬ chan g = M := fun h => h2 (hgM.mpr h)
          rw [if_neg h2, if_neg h2']
    exact hexcone_real (chan r) (chan g) (chan b) (max (min 1 a) 0) (fromRgba8 r g b a : Color ℝ)
      hr.1 hg.1 hb.1 hr.2 hg.2 hb.2 hC hhue hlight hsat halpha

end Pastel

namespace Pastel

/-- Rounding `255 · (k/255)` and casting gives back the byte (exact arithmetic). -/
theorem real_toU8_round_chan (x : UInt8) : Sc.toU8 (Sc.round (255.0 * chan x : ℝ)) = x := by
  have hx : (255.0 : ℝ) * chan x = (x.toNat : ℝ) := by unfold chan; norm_num
  rw [hx]
  have hr : Sc.round ((x.toNat : ℝ)) = (x.toNat : ℝ) := by
    show (if (0 : ℝ) ≤ (x.toNat : ℝ) then ((⌊(x.toNat : ℝ) + 1 / 2⌋ : ℤ) : ℝ) else _) = _
    have h0 : (0 : ℝ) ≤ (x.toNat : ℝ) := Nat.cast_nonneg _
    simp only [h0, if_true]
    have : ⌊(x.toNat : ℝ) + 1 / 2⌋ = (x.toNat : ℤ) := by
      rw [Int.floor_eq_iff]
      constructor
      · push_cast; linarith
      · push_cast; linarith
    rw [this]; push_cast; rfl
  rw [hr]
  show UInt8.ofNat (satInt 0 255 (rtrunc (x.toNat : ℝ))).toNat = x
  have ht : rtrunc ((x.toNat : ℝ)) = (x.toNat : ℤ) := by
    unfold rtrunc
    have h0 : (0 : ℝ) ≤ (x.toNat : ℝ) := Nat.cast_nonneg _
    simp only [h0, if_true]
    exact_mod_cast Int.floor_natCast x.toNat
  rw [ht]
  have hlt := x.toNat_lt
  have : satInt 0 255 (x.toNat : ℤ) = (x.toNat : ℤ) := by
    unfold satInt
    omega
  rw [this]
  simp

/-- **HSL round trip, exact arithmetic, all 2²⁴ colours**: `to_rgba(from_rgba(r, g, b, α))` has
the channels `(r, g, b)`. -/
theorem hsl_roundtrip_real (r g b : UInt8) (a : ℝ) :
    (toRgba8 (fromRgba8 r g b a : Color ℝ)).r = r ∧ (toRgba8 (fromRgba8 r g b a : Color ℝ)).g = g ∧
    (toRgba8 (fromRgba8 r g b a : Color ℝ)).b = b := by
  have h := fromRgba8_toRgbaFloat r g b a
  unfold toRgba8
  simp only [h]
  exact ⟨real_toU8_round_chan r, real_toU8_round_chan g, real_toU8_round_chan b⟩

end Pastel
