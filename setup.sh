#!/bin/sh
# MANIFEST.setup_cmd: build the framework from files on disk only (offline).
set -e
cd /verif/lean
lake build Pastel pastel-model
cd /verif/harness
CARGO_NET_OFFLINE=true CARGO_TARGET_DIR=/verif/.build/harness-target RUSTFLAGS="--cfg pastel_verif" cargo build --release --offline
echo setup-ok
