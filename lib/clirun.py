"""CLI-level checks: run the release binary built from /repo's working tree under a pipe
or a pty with a controlled environment, compare with the Lean model's prediction
(through the `pastel-model` line protocol) and evaluate the direct oracles."""
import json, os, pty, random, re, select, subprocess, sys, time

VERIF = os.path.dirname(os.path.dirname(os.path.abspath(__file__)))
BUILD = os.path.join(VERIF, ".build")
BIN = os.environ.get("VERIF_PASTEL_BIN") or os.path.join(BUILD, "pastel-target", "release", "pastel")
MODEL = os.environ.get("VERIF_MODEL_EXE") or os.path.join(VERIF, "lean", ".lake", "build", "bin", "pastel-model")
ESC = b"\x1b"


def build_binary(lib):
    with lib.Lock("cargo-bin"):
        env = {"CARGO_TARGET_DIR": os.path.join(BUILD, "pastel-target"),
               "CARGO_PROFILE_RELEASE_LTO": "false", "CARGO_PROFILE_RELEASE_CODEGEN_UNITS": "16",
               "CARGO_PROFILE_RELEASE_STRIP": "false"}
        rc, out = lib.run(["cargo", "build", "--release", "--offline", "--bin", "pastel"], cwd="/repo", env=env, timeout=3000)
        return rc == 0, out


def base_env(extra=None):
    env = {"PATH": "/usr/bin:/bin", "HOME": "/tmp", "TERM": "xterm-256color", "LANG": "C.UTF-8"}
    if extra:
        env.update(extra)
    return env


def run_cli(args, stdin=b"", env=None, tty=False, timeout=30, stdin_tty=False, close_stdout_after=None):
    """Returns (returncode, stdout bytes, stderr bytes). returncode < 0 = killed by a signal."""
    env = base_env(env)
    cmd = [BIN] + list(args)
    if not tty and close_stdout_after is None:
        p = subprocess.run(cmd, input=stdin if stdin is not None else None,
                           stdin=subprocess.DEVNULL if stdin is None else None,
                           stdout=subprocess.PIPE, stderr=subprocess.PIPE, env=env, timeout=timeout)
        return p.returncode, p.stdout, p.stderr
    if close_stdout_after is not None:
        # a reader that closes the pipe after k bytes
        r, w = os.pipe()
        p = subprocess.Popen(cmd, stdin=subprocess.PIPE, stdout=w, stderr=subprocess.PIPE, env=env)
        os.close(w)
        got = b""
        while len(got) < close_stdout_after:
            chunk = os.read(r, close_stdout_after - len(got))
            if not chunk:
                break
            got += chunk
        os.close(r)
        try:
            if stdin:
                p.stdin.write(stdin)
            p.stdin.close()
        except BrokenPipeError:
            pass
        try:
            p.wait(timeout=timeout)
        except subprocess.TimeoutExpired:
            p.kill(); p.wait()
            return -999, got, b"timeout"
        err = p.stderr.read()
        return p.returncode, got, err
    # pty for stdout (and optionally stdin)
    master, slave = pty.openpty()
    sin = slave if stdin_tty else subprocess.PIPE
    p = subprocess.Popen(cmd, stdin=sin, stdout=slave, stderr=subprocess.PIPE, env=env, close_fds=True)
    os.close(slave)
    if not stdin_tty:
        try:
            if stdin:
                p.stdin.write(stdin)
            p.stdin.close()
        except BrokenPipeError:
            pass
    out = b""
    deadline = time.time() + timeout
    while True:
        if time.time() > deadline:
            p.kill()
            break
        r, _, _ = select.select([master], [], [], 0.05)
        if master in r:
            try:
                chunk = os.read(master, 65536)
            except OSError:
                break
            if not chunk:
                break
            out += chunk
        elif p.poll() is not None:
            # drain
            try:
                while True:
                    r, _, _ = select.select([master], [], [], 0.02)
                    if master not in r:
                        break
                    chunk = os.read(master, 65536)
                    if not chunk:
                        break
                    out += chunk
            except OSError:
                pass
            break
    p.wait()
    err = p.stderr.read()
    os.close(master)
    # the pty translates \n to \r\n
    return p.returncode, out.replace(b"\r\n", b"\n"), err


def run_cli_limited(args, mem_bytes, timeout=120):
    """run_cli under an address-space limit (so that a request for unbounded memory fails fast instead
    of exhausting the machine). Returns (returncode, stdout, stderr); -999 = still running at timeout."""
    import resource
    def limit():
        resource.setrlimit(resource.RLIMIT_AS, (mem_bytes, mem_bytes))
        resource.setrlimit(resource.RLIMIT_CORE, (0, 0))
    env = base_env({"RUST_BACKTRACE": "0"})
    try:
        p = subprocess.run([BIN] + list(args), stdin=subprocess.DEVNULL, stdout=subprocess.PIPE, stderr=subprocess.PIPE,
                           env=env, timeout=timeout, preexec_fn=limit)
    except subprocess.TimeoutExpired as e:
        return -999, e.stdout or b"", e.stderr or b""
    return p.returncode, p.stdout, p.stderr


def run_cli2(args, env=None, out_tty=False, err_tty=True, timeout=60):
    """Like run_cli, with stdout and stderr independently a pty or a pipe (no stdin)."""
    env = base_env(env)
    fds = {}
    def end(is_tty):
        if is_tty:
            m, sl = pty.openpty()
            return m, sl
        r, w = os.pipe()
        return r, w
    om, osl = end(out_tty)
    em, esl = end(err_tty)
    p = subprocess.Popen([BIN] + list(args), stdin=subprocess.DEVNULL, stdout=osl, stderr=esl, env=env, close_fds=True)
    os.close(osl); os.close(esl)
    bufs = {om: b"", em: b""}
    live = {om, em}
    deadline = time.time() + timeout
    while live:
        if time.time() > deadline:
            p.kill()
            break
        r, _, _ = select.select(list(live), [], [], 0.05)
        for fd in r:
            try:
                chunk = os.read(fd, 65536)
            except OSError:
                chunk = b""
            if chunk:
                bufs[fd] += chunk
            else:
                live.discard(fd)
        if not r and p.poll() is not None:
            # drain once more, then stop
            r, _, _ = select.select(list(live), [], [], 0.05)
            if not r:
                break
    p.wait()
    os.close(om); os.close(em)
    return p.returncode, bufs[om].replace(b"\r\n", b"\n"), bufs[em].replace(b"\r\n", b"\n")


def model_batch(lines):
    if not lines:
        return []
    p = subprocess.run([MODEL], input=("\n".join(lines) + "\n").encode(), stdout=subprocess.PIPE, stderr=subprocess.PIPE)
    out = p.stdout.decode("utf-8", "replace").split("\n")
    if out and out[-1] == "":
        out.pop()
    return out


def hexs(s):
    b = s.encode() if isinstance(s, str) else s
    return b.hex() if b else "-"


def unhex(t):
    return b"" if t == "-" else bytes.fromhex(t)


class Res:
    def __init__(self, prop):
        self.d = {"property": prop, "evaluations": 0, "model_ops": 0, "distinct_nontrivial": 0, "oracle_checks": 0,
                  "float_fields": 0, "bitwise_mismatches": 0, "n_disagreements": 0, "n_oracle_failures": 0,
                  "distribution": {}, "oracle_failures_by_site": {}, "samples": [], "exhaustive": [], "notes": [],
                  "disagreements": [], "oracle_failures": []}
        self.seen = set()

    def case(self, key, nontrivial=True):
        self.d["evaluations"] += 1
        if key not in self.seen:
            self.seen.add(key)
            if nontrivial:
                self.d["distinct_nontrivial"] += 1
        if len(self.d["samples"]) < 4:
            self.d["samples"].append(key[:300])

    def tag(self, t, n=1):
        self.d["distribution"][t] = self.d["distribution"].get(t, 0) + n

    def check(self, cond, clause, site, inp, detail):
        self.d["oracle_checks"] += 1
        oc = self.d.setdefault("oracle_clauses", {})
        oc[clause] = oc.get(clause, 0) + 1
        if not cond:
            self.fail(clause, site, inp, detail)

    def fail(self, clause, site, inp, detail):
        self.d["n_oracle_failures"] += 1
        k = "%s|%s" % (clause, site)
        self.d["oracle_failures_by_site"][k] = self.d["oracle_failures_by_site"].get(k, 0) + 1
        same = sum(1 for f in self.d["oracle_failures"] if f["clause"] == clause and f["site"] == site)
        if same < 5:
            self.d["oracle_failures"].append({"clause": clause, "site": site, "input": inp[:1000], "detail": detail[:1000]})

    def disagree(self, op, impl, model):
        self.d["n_disagreements"] += 1
        if len(self.d["disagreements"]) < 25:
            self.d["disagreements"].append({"op": op[:1000], "implementation": impl[:1000], "model": model[:1000], "field": -1})

    def model_op(self):
        self.d["model_ops"] += 1


def sgr_tokens(out):
    """(position, params) of every CSI ... m sequence."""
    return [(m.start(), m.group(1)) for m in re.finditer(rb"\x1b\[([0-9;]*)m", out)]


def check_reset_discipline(res, out, site, inp):
    """Every colour-setting sequence is followed (after its text) by a reset before the next one."""
    open_ = False
    ok = True
    for _, params in sgr_tokens(out):
        if params in (b"0", b""):
            open_ = False
        else:
            if open_:
                ok = False
            open_ = True
    if open_:
        ok = False
    res.check(ok, "colour-sequence-followed-by-reset", site, inp, repr(out[:200]))


# ------------------------------------------------------------------------------------------ C13

def c13(res, tier, seed, lib):
    # `paint` with colour off (a pipe) against the Lean CLI model: the text comes out byte for byte,
    # foreground / background are still validated, `default`, `-`, --no-newline
    modelled_family(res, random.Random(seed + 77), ['paint'], 120 if tier != "thorough" else 1500)
    rnd = random.Random(seed)
    flags = [[], ["-f"], ["-m", "24bit"], ["-m", "8bit"], ["-m", "off"], ["-m", "auto"]]
    # the four documented values exactly as written; every other spelling is an error
    pcms = [None, "24bit", "truecolor", "8bit", "off", "", "junk", "TrueColor", "24BIT", "OFF", "8Bit", " 24bit", "off ", "auto"]
    nocolors = [None, "", "1"]
    cts = [None, "truecolor", "24bit", "xterm"]
    configs = [(f, tty, p, n, c) for f in flags for tty in (False, True) for p in pcms for n in nocolors for c in cts]
    lines, meta = [], []
    for (f, tty, p, n, c) in configs:
        env = {}
        if p is not None:
            env["PASTEL_COLOR_MODE"] = p
        if n is not None:
            env["NO_COLOR"] = n
        if c is not None:
            env["COLORTERM"] = c
        rc, out, err = run_cli(f + ["format", "hex", "ff0077"], env=env, tty=tty)
        if rc == 1:
            m = re.search(rb"Unknown PASTEL_COLOR_MODE value \((.*)\)", err)
            impl = "err:mode " + hexs(m.group(1) if m else b"?")
        elif b"\x1b[38;2;" in out:
            impl = "ok 24"
        elif b"\x1b[38;5;" in out:
            impl = "ok 8"
        elif ESC not in out and b"#ff0077" in out:
            impl = "ok off"
        else:
            impl = "?? rc=%d %r" % (rc, out[:80])
        force = "1" if f == ["-f"] else "0"
        flag = f[1] if len(f) == 2 else "auto"
        op = "mode %s %s %s %s %s %s" % (force, flag, "1" if tty else "0", "~" if p is None else hexs(p),
                                         "0" if n is None else "1", "~" if c is None else hexs(c))
        lines.append(op); meta.append((op, impl, (f, tty, env)))
        # the direct oracle: the documented rule list, written here independently
        if f == ["-f"] or f == ["-m", "24bit"]:
            want = "ok 24"
        elif f == ["-m", "8bit"]:
            want = "ok 8"
        elif f == ["-m", "off"]:
            want = "ok off"
        elif not tty:
            want = "ok off"
        elif p is not None:
            want = {"24bit": "ok 24", "truecolor": "ok 24", "8bit": "ok 8", "off": "ok off"}.get(p, "err:mode " + hexs(p))
        elif n is not None:
            want = "ok off"
        elif c in ("truecolor", "24bit"):
            want = "ok 24"
        else:
            want = "ok 8"
        res.case(op, tty and not f)
        res.check(impl == want, "colour-mode-decision", "main.rs::run", "%s tty=%s env=%s" % (f, tty, env), "got %s, documented rules give %s" % (impl, want))
    outs = model_batch(lines)
    for (op, impl, _), mo in zip(meta, outs):
        res.model_op()
        if mo != impl:
            res.disagree(op, impl, mo)
    res.d["exhaustive"].append("all %d configurations of flag x pipe/pty x PASTEL_COLOR_MODE x NO_COLOR x COLORTERM" % len(configs))
    # the same decision for a command that also writes to STDERR (`distinct`), with STDERR a terminal:
    # a PASTEL_COLOR_MODE value is an error only where the rule list consults it
    for f in flags:
        for out_tty in (False, True):
            for pv in ["junk", "", b"24bit\xff", b"\xff", "24bit", None]:
                env = {} if pv is None else {"PASTEL_COLOR_MODE": pv}
                rc, out, err = run_cli2(f + ["distinct", "2", "red", "blue"], env=env, out_tty=out_tty, err_tty=True)
                consulted = (f == [] or f == ["-m", "auto"]) and out_tty
                bad = pv not in (None, "24bit")
                inp = "%s distinct 2 red blue; stdout tty=%s stderr tty=True PASTEL_COLOR_MODE=%r" % (f, out_tty, pv)
                res.case(inp)
                if consulted and bad:
                    res.check(rc == 1 and b"Unknown PASTEL_COLOR_MODE value" in err, "unknown-mode-value-is-an-error-where-consulted", "cli:distinct", inp, "rc=%s %r" % (rc, err[-120:]))
                else:
                    res.check(rc == 0 and out.count(b"\n") >= 2, "mode-value-not-consulted-is-irrelevant", "cli:distinct", inp, "rc=%s out=%r err=%r" % (rc, out[:60], err[-120:]))
    # a value that is not valid Unicode is "anything else": an error where the variable is consulted
    for pv in [b"24bit\xff", b"\xff\xfe", b"off\x80"]:
        for extra in ({}, {"NO_COLOR": "1"}, {"COLORTERM": "truecolor"}):
            env = dict(extra); env["PASTEL_COLOR_MODE"] = pv
            rc, out, err = run_cli(["format", "hex", "ff0077"], env=env, tty=True)
            inp = "format hex ff0077 tty=True env=%r" % env
            res.case(inp)
            res.check(rc == 1 and b"Unknown PASTEL_COLOR_MODE value" in err, "unknown-mode-value-is-an-error-where-consulted", "main.rs::run", inp, "rc=%s out=%r" % (rc, out[:60]))
            rc, out, err = run_cli(["format", "hex", "ff0077"], env=env, tty=False)
            res.check(rc == 0 and out == b"#ff0077\n", "mode-value-not-consulted-is-irrelevant", "main.rs::run", inp.replace("tty=True", "tty=False"), "rc=%s out=%r" % (rc, out[:60]))

    # ---- ESC scan: colour off => no ESC of its own; colour on => reset discipline ----
    cols = ["red", "#33aa55", "hsl(200,50%,40%)", "rgba(10,20,30,0.5)"]
    cmds = [
        ["color"] + cols, ["list"], ["list", "-s", "hue"], ["random", "-n", "3"], ["random", "-s", "lch_hue", "-n", "2"],
        ["sort-by", "hue"] + cols, ["sort-by", "-r", "-u", "brightness"] + cols,
        ["paint", "red", "text"], ["paint", "-o", "blue", "-b", "-i", "-u", "white", "x y"], ["paint", "default", "plain"],
        ["gradient", "-n", "4", "red", "blue"], ["mix", "red", "blue"], ["colorblind", "deuter", "red"],
        ["set", "hsl-hue", "120", "red"], ["saturate", "0.2", "red"], ["desaturate", "0.2", "red"], ["lighten", "0.1", "red"],
        ["darken", "0.1", "red"], ["rotate", "30", "red"], ["complement", "red"], ["gray", "0.4"], ["to-gray", "red"],
        ["textcolor", "red"], ["distinct", "2"],
    ]
    ftypes = ["rgb", "rgb-float", "hex", "hsl", "hsl-hue", "hsl-saturation", "hsl-lightness", "hsv", "hsv-hue", "hsv-saturation",
              "hsv-value", "lch", "lch-lightness", "lch-chroma", "lch-hue", "lab", "lab-a", "lab-b", "oklab", "oklab-l", "oklab-a",
              "oklab-b", "luminance", "brightness", "ansi-8bit", "ansi-24bit", "cmyk", "name"]
    for t in ftypes:
        cmds.append(["format", t, "red", "rgba(10,20,30,0.5)"])
    # option values in other letter cases (accepted by the argument parser) are the same commands
    recased = [["format", t, "red", "rgba(10,20,30,0.5)"] for t in ["ANSI-8BIT", "Ansi-24Bit", "ANSI-24BIT", "HEX", "Lab-A", "NAME"]]
    recased += [["colorblind", "PROT", "red"], ["set", "HSL-Hue", "120", "red"], ["sort-by", "HUE"] + cols, ["list", "-s", "Hue"],
                ["mix", "-s", "RGB", "red", "blue"], ["gradient", "-s", "Lch", "-n", "3", "red", "blue"], ["random", "-s", "VIVID", "-n", "2"]]
    cmds += recased
    exempt = [["colorcheck"], ["format", "ansi-8bit-escapecode", "red"], ["format", "ansi-24bit-escapecode", "red"]]
    off_settings = [([], False, {}), (["-m", "off"], True, {}), ([], True, {"NO_COLOR": "1"}), ([], True, {"PASTEL_COLOR_MODE": "off"})]
    on_settings = [(["-f"], False, {}), (["-m", "8bit"], False, {}), ([], True, {"COLORTERM": "truecolor"}), ([], True, {"PASTEL_COLOR_MODE": "8bit"})]
    for cmd in cmds:
        for (fl, tty, env) in off_settings:
            rc, out, err = run_cli(fl + cmd, env=env, tty=tty, timeout=60)
            inp = "%s tty=%s env=%s" % (fl + cmd, tty, env)
            res.case("off " + inp)
            if rc == 2 and cmd in recased:
                continue            # this spelling is not accepted by the argument parser
            res.check(rc == 0, "exit-0", "cli", inp, "rc=%s stderr=%r" % (rc, err[:200]))
            res.check(ESC not in out, "no-escape-with-colour-off", "cli:" + cmd[0], inp, repr(out[:200]))
        for (fl, tty, env) in on_settings:
            rc, out, err = run_cli(fl + cmd, env=env, tty=tty, timeout=60)
            inp = "%s tty=%s env=%s" % (fl + cmd, tty, env)
            res.case("on " + inp)
            if rc == 2 and cmd in recased:
                continue
            res.check(rc == 0, "exit-0", "cli", inp, "rc=%s stderr=%r" % (rc, err[:200]))
            check_reset_discipline(res, out, "cli:" + cmd[0], inp)
    for cmd in exempt:
        rc, out, err = run_cli(["-m", "off"] + cmd, tty=False)
        res.case("exempt " + " ".join(cmd))
        res.check(rc == 0 and ESC in out, "exempt-commands-emit-sequences-by-design", "cli:" + cmd[0], str(cmd), repr(out[:100]))
    # text taken from stdin (no TEXT argument): unchanged, with and without -n
    for text in [b"hello\n", b"hello", b"two\nlines\n", b"\n", b"trailing  \n\n"]:
        for nflag in ([], ["-n"]):
            rc, out, err = run_cli(["paint"] + nflag + ["red"], stdin=text, tty=False)
            want = text + (b"" if nflag else b"\n")
            inp = "paint %s red < %r" % (" ".join(nflag), text)
            res.case(inp)
            res.check(rc == 0 and out == want, "paint-off-byte-for-byte", "cli:paint(stdin)", inp, repr(out))
            rc, out, err = run_cli(["-f", "paint"] + nflag + ["red"], stdin=text, tty=False)
            res.check(rc == 0 and out == b"\x1b[38;2;255;0;0m" + text + b"\x1b[0m" + (b"" if nflag else b"\n"), "paint-on-seq-text-reset", "cli:paint(stdin)", "-f " + inp, repr(out))
    # the paint command passes the text through byte for byte when colour is off
    for text in ["plain", "with \x1b[31m inside", "ünï ▀", ""]:
        rc, out, err = run_cli(["paint", "-n", "red", text], tty=False)
        res.case("paint-off " + text)
        res.check(out == text.encode(), "paint-off-byte-for-byte", "cli:paint", text, repr(out))


HARNESS = os.path.join(BUILD, "harness-target", "release", "pv-harness")


def harness_query(lines):
    if not lines:
        return []
    p = subprocess.run([HARNESS, "query"], input=("\n".join(lines) + "\n").encode(), stdout=subprocess.PIPE, stderr=subprocess.PIPE)
    return p.stdout.decode("utf-8", "replace").split("\n")[:len(lines)]


class Info:
    """What the library says about a colour string."""
    def __init__(self, text, ans):
        self.text = text
        t = ans.split(" ")
        self.ok = t[0] == "ok"
        self.hsl, self.packed, self.keys, self.wire = None, None, {}, ""
        if self.ok:
            self.hsl = unhex(t[1]).decode()
            self.packed = int(t[2])
            self.keys = {"brightness": int(t[3]), "luminance": int(t[4]), "hue": int(t[5]), "chroma": int(t[6])}
            self.wire = " ".join(t[7:11])


def infos(texts):
    return [Info(t, a) for t, a in zip(texts, harness_query(["info " + hexs(t) for t in texts]))]


def rand_color_text(rnd):
    k = rnd.randrange(8)
    if k == 0:
        g = rnd.randrange(256); return "rgb(%d,%d,%d)" % (g, g, g)
    if k == 1:
        return "#%02x%02x%02x" % (rnd.randrange(256), rnd.randrange(256), rnd.randrange(256))
    if k == 2:
        return "hsl(%d,%d%%,%d%%)" % (rnd.randrange(360), rnd.randrange(101), rnd.randrange(101))
    if k == 3:
        return "rgba(%d,%d,%d,%.2f)" % (rnd.randrange(256), rnd.randrange(256), rnd.randrange(256), rnd.random())
    if k == 4:
        return rnd.choice(["red", "blue", "aqua", "cyan", "gray", "grey", "white", "black", "rebeccapurple", "gold", "teal"])
    if k == 5:
        return "lab(%d,%d,%d)" % (rnd.randrange(101), rnd.randrange(-100, 100), rnd.randrange(-100, 100))
    return "rgb(%d,%d,%d)" % (rnd.randrange(256), rnd.randrange(256), rnd.randrange(256))


def recasings(v):
    out = {v.upper(), v.lower(), v.title(), v.swapcase(), v[:1].lower() + v[1:].upper()}
    out.discard(v)
    return sorted(out)


def case_oracle(res, site, argv_fn, values, stdin=None):
    """An option value that the argument parser accepts in another letter case selects the same
    behaviour as the documented spelling (or is rejected as a usage error) - never something else."""
    for v in values:
        rc0, out0, _ = run_cli(argv_fn(v), stdin=stdin)
        for w in recasings(v):
            rc, out, err = run_cli(argv_fn(w), stdin=stdin)
            inp = " ".join(argv_fn(w))
            res.case(inp)
            generic_oracle(res, argv_fn(w), rc, out, err)
            res.check(rc == 2 or (rc == rc0 and out == out0), "option-value-any-case", site, inp,
                      "rc=%s %r; with %r: rc=%s %r" % (rc, out[:80], v, rc0, out0[:80]))


# ------------------------------------------------------------------------------------------ C17

def c17(res, tier, seed, lib):
    # `sort-by` (deterministic keys) against the Lean CLI model: colours as arguments / '-' / stdin lines incl.
    # unreadable ones (then nothing is printed), --unique, --reverse
    modelled_family(res, random.Random(seed + 77), ['sort-by'], 150 if tier != "thorough" else 2000)
    rnd = random.Random(seed)
    n_lists = 4000 if tier == "thorough" else 260
    keys = ["brightness", "luminance", "hue", "chroma"]
    cases = []
    for i in range(n_lists):
        ln = rnd.choice([0, 1, 2, 3, 5, 8, 13, 20, 40, 60]) if i % 5 == 0 else rnd.randrange(0, 12)
        texts = [rand_color_text(rnd) for _ in range(ln)]
        # duplicates far apart and equal-key clusters
        if ln >= 3 and rnd.random() < 0.5:
            texts[rnd.randrange(ln)] = texts[0]
        if ln >= 4 and rnd.random() < 0.3:
            g = rnd.randrange(256)
            texts[1] = "rgb(%d,%d,%d)" % (g, g, g); texts[-1] = "hsl(%d,0%%,%.1f%%)" % (rnd.randrange(360), g / 2.55)
        cases.append((texts, rnd.choice(keys + ["random"]), rnd.random() < 0.4, rnd.random() < 0.4, rnd.random() < 0.5))
    # the key 'random' on long lists (the standard sort only inspects its comparison function closely
    # on more than 20 elements), arguments and stdin
    for ln in [21, 33, 64, 300]:
        for use_stdin in [False, True]:
            cases.append(([rand_color_text(rnd) for _ in range(ln)], "random", False, False, use_stdin))
    # colours off the 8-bit grid with one decimal (what pastel itself prints), many per list: near-tied keys
    for _ in range(3 if tier != "thorough" else 40):
        texts = ["hsl(%d,%.1f%%,%.1f%%)" % (rnd.randrange(360), rnd.uniform(0, 100), rnd.uniform(0, 100)) for _ in range(300)]
        cases.append((texts, rnd.choice(keys), rnd.random() < 0.3, False, True))
    # long inputs on stdin: more than the 8 KiB a buffered reader holds at once, with line lengths that do not
    # divide it (bare hex = 7 bytes a line, hsl() = varying): every line must still arrive whole
    for ln, mk in [(1400, lambda: "%06x" % rnd.randrange(1 << 24)), (3000, lambda: "%06x" % rnd.randrange(1 << 24)),
                   (1200, lambda: "hsl(%d,%d%%,%d%%)" % (rnd.randrange(360), rnd.randrange(101), rnd.randrange(101)))]:
        cases.append(([mk() for _ in range(ln)], rnd.choice(keys), False, False, True))
    all_texts = sorted({t for c in cases for t in c[0]})
    info = dict(zip(all_texts, infos(all_texts)))
    # the keys are the documented quantities: 1000 x (brightness | luminance | LCh hue | LCh chroma), truncated -
    # evaluated independently by the model for every colour used
    import struct as _st
    okt = [t for t in all_texts if info[t].ok]
    mlum = model_batch(["num luminance " + info[t].wire for t in okt])
    mbri = model_batch(["num brightness " + info[t].wire for t in okt])
    mlch = model_batch(["to lch " + info[t].wire for t in okt])
    def _f(h):
        return _st.unpack(">d", bytes.fromhex(h))[0]
    for t, a, b, c in zip(okt, mlum, mbri, mlch):
        try:
            vals = {"luminance": _f(a.split(" ")[1]), "brightness": _f(b.split(" ")[1]), "chroma": _f(c.split(" ")[2]), "hue": _f(c.split(" ")[3])}
        except Exception:
            res.fail("model-answers", "pastel-model", t, "%s | %s | %s" % (a[:40], b[:40], c[:60]))
            continue
        for k, v in vals.items():
            have = info[t].keys[k]
            x = 1000.0 * v
            near_int = abs(x - round(x)) < 1e-6
            # hue near 0/360 of (nearly) achromatic colours is ill-conditioned: skip those
            if k == "hue" and vals["chroma"] < 1e-6:
                continue
            res.check(have == int(x) or (near_int and abs(have - int(x)) <= 1), "sort-key-is-the-documented-quantity", "sort key " + k, t,
                      "the library gives key %d, 1000 x %s = %r" % (have, k, x))
    lines, meta = [], []
    for (texts, key, rev, uniq, via_stdin) in cases:
        args = ["sort-by", key] + (["-r"] if rev else []) + (["-u"] if uniq else [])
        if via_stdin or not texts:
            rc, out, err = run_cli(args, stdin=("".join(t + "\n" for t in texts)).encode())
        else:
            rc, out, err = run_cli(args + texts)
        inp = "%s %s" % (args, texts)
        got = out.decode().split("\n")
        if got and got[-1] == "":
            got.pop()
        res.case("sort " + inp, len(texts) >= 2)
        res.check(rc == 0, "exit-0", "cli:sort-by", inp, "rc=%s stderr=%r" % (rc, err[:200]))
        its = [info[t] for t in texts]
        printed = [i.hsl for i in its]
        if key == "random":
            # some permutation (of the distinct packed values under --unique)
            if uniq:
                by_print = {}
                for i in its:
                    by_print.setdefault(i.hsl, set()).add(i.packed)
                distinct = {i.packed for i in its}
                ok_u = len(got) == len(distinct) and all(g in by_print for g in got)
                res.check(ok_u, "random-is-permutation", "cli:sort-by", inp, str(got))
            else:
                res.check(sorted(got) == sorted(printed), "random-is-permutation", "cli:sort-by", inp, str(got))
            continue
        # direct oracle: multiset, order, stability, reverse
        ks = {i.hsl: i.keys[key] for i in its}
        if not uniq:
            res.check(sorted(got) == sorted(printed), "output-is-input-multiset", "cli:sort-by", inp, str(got))
        else:
            distinct = {i.packed for i in its}
            res.check(len(got) == len(distinct) and all(g in printed for g in got), "unique-one-per-rgb", "cli:sort-by", inp, str(got))
        # two different colours can print alike (one decimal of a per cent) and have different keys: a printed line
        # then stands for any of them, and the order is judged with the smallest / largest key it may have
        klo, khi = {}, {}
        for i in its:
            klo[i.hsl] = min(klo.get(i.hsl, i.keys[key]), i.keys[key])
            khi[i.hsl] = max(khi.get(i.hsl, i.keys[key]), i.keys[key])
        seq = [ks.get(g) for g in got]
        if None not in seq:
            if not rev:
                ordered = all(klo[got[j]] <= khi[got[j + 1]] for j in range(len(got) - 1))
            else:
                ordered = all(khi[got[j]] >= klo[got[j + 1]] for j in range(len(got) - 1))
            res.check(ordered, "non-decreasing-in-key", "cli:sort-by", inp, "%s keys %s" % (got[:60], seq[:60]))
        # stability: among equal keys the input order is kept (packed-RGB order under --unique)
        if seq and None not in seq and len(set(printed)) == len(printed):
            pos = {}
            for idx, i in enumerate(its):
                pos.setdefault(i.hsl, idx)
            okst = True
            for a in range(len(got) - 1):
                if seq[a] == seq[a + 1] and got[a] != got[a + 1]:
                    ia, ib = info_by_print(its, got[a]), info_by_print(its, got[a + 1])
                    if uniq:
                        first_ok = ia.packed < ib.packed
                    else:
                        first_ok = pos[got[a]] < pos[got[a + 1]]
                    if rev:
                        first_ok = not first_ok
                    okst = okst and first_ok
            res.check(okst, "equal-keys-keep-order", "cli:sort-by", inp, "%s keys %s" % (got, seq))
        # model: exact expected sequence
        op = "sort %d %d %d %s" % (1 if uniq else 0, 1 if rev else 0, len(its), " ".join("%d %d" % (i.packed, i.keys[key]) for i in its))
        lines.append(op); meta.append((op, printed, got))
    outs = model_batch(lines)
    for (op, printed, got), mo in zip(meta, outs):
        res.model_op()
        t = mo.split()
        want = [printed[int(k)] for k in t[1:]] if t and t[0] == "ok" else None
        if want != got:
            res.disagree(op, " | ".join(got), mo + " => " + " | ".join(want or []))
    # ---- pastel list ----
    names = harness_query([])  # no-op (keeps the helper warm)
    import re as _re
    table = _re.findall(r'named_color\("([a-z]+)"', open("/repo/src/named.rs").read())
    tinfo = infos(table)
    # every name of the table is a colour pastel reads (what `list` prints must parse to a named colour)
    for n, i in zip(table, tinfo):
        res.case("table name " + n)
        res.check(i.ok, "every-listed-name-parses", "parse_color", n, "the name %r of NAMED_COLORS is not read as a colour" % n)
    all_names = list(table)
    table, tinfo = [n for n, i in zip(table, tinfo) if i.ok], [i for i in tinfo if i.ok]
    # defaults: `list` sorts by hue; `sort-by` with colours on stdin and no key sorts by hue
    rc1, out1, _ = run_cli(["list"])
    rc2, out2, _ = run_cli(["list", "--sort", "hue"])
    res.case("list default")
    res.check(rc1 == 0 and out1 == out2, "list-default-is-hue", "cli:list", "list", "%r vs %r" % (out1[:60], out2[:60]))
    data = b"orange\nteal\n#123\ngray\n#4080c0\n"
    rc1, out1, _ = run_cli(["sort-by"], stdin=data)
    rc2, out2, _ = run_cli(["sort-by", "hue"], stdin=data)
    res.case("sort-by default")
    res.check(rc1 == 0 and out1 == out2, "sort-by-default-is-hue", "cli:sort-by", "sort-by < 5 colours", "%r vs %r" % (out1[:60], out2[:60]))
    case_oracle(res, "cli:sort-by", lambda t: ["sort-by", t, "#4080c0", "orange", "teal", "#123", "gray"], keys)
    case_oracle(res, "cli:list", lambda t: ["list", "--sort", t], keys)
    for key in keys + ["random"]:
        rc, out, err = run_cli(["list", "--sort", key])
        got = out.decode().split("\n")
        if got and got[-1] == "":
            got.pop()
        inp = "list --sort " + key
        res.case(inp)
        res.check(rc == 0, "exit-0", "cli:list", inp, "rc=%s" % rc)
        res.check(all(g in all_names for g in got), "list-prints-only-names", "cli:list", inp, str([g for g in got if g not in all_names][:5]))
        got = [g for g in got if g in table]
        by_name = dict(zip(table, tinfo))
        for g in got:
            if g in by_name:
                res.check(by_name[g].ok, "every-listed-name-parses", "parse_color", g, "`pastel list` prints %r, which pastel does not read as a colour" % g)
        got = [g for g in got if g not in by_name or by_name[g].ok]
        packed_out = [by_name[g].packed for g in got if g in by_name]
        res.check(set(packed_out) == {i.packed for i in tinfo}, "list-covers-every-named-rgb", "cli:list", inp, "missing %d" % len({i.packed for i in tinfo} - set(packed_out)))
        if key != "random":
            res.check(len(packed_out) == len(set(packed_out)), "list-each-rgb-once", "cli:list", inp, "%d lines, %d distinct" % (len(packed_out), len(set(packed_out))))
            seq = [by_name[g].keys[key] for g in got if g in by_name]
            res.check(all(seq[j] <= seq[j + 1] for j in range(len(seq) - 1)), "list-ordered", "cli:list", inp, str(seq[:20]))
            op = "list %d %s" % (len(tinfo), " ".join("%d %d" % (i.packed, i.keys[key]) for i in tinfo))
            mo = model_batch([op])[0]
            res.model_op()
            t = mo.split()
            want = [table[int(k)] for k in t[1:]] if t and t[0] == "ok" else None
            if want != got:
                res.disagree(op[:200], " ".join(got)[:600], " ".join(want or [])[:600])


def info_by_print(its, printed):
    for i in its:
        if i.hsl == printed:
            return i
    return None


def infos_packed(printed_lines):
    return [i.packed for i in infos(printed_lines) if i.ok]


# ------------------------------------------------------------------------------------------ C18

def c18(res, tier, seed, lib):
    rnd = random.Random(seed)
    import re as _re
    rows = _re.findall(r'named_color\("([a-z]+)",\s*(\d+),\s*(\d+),\s*(\d+)\)', open("/repo/src/named.rs").read())
    texts = []
    for (n, r, g, b) in rows:
        r, g, b = int(r), int(g), int(b)
        texts.append(n)
        for (dr, dg, db) in [(1, 0, 0), (0, -1, 0), (0, 0, 1)]:
            texts.append("rgb(%d,%d,%d)" % (min(255, max(0, r + dr)), min(255, max(0, g + dg)), min(255, max(0, b + db))))
    step = 51 if tier != "thorough" else 17
    for r in range(0, 256, step):
        for g in range(0, 256, step):
            for b in range(0, 256, step):
                texts.append("rgb(%d,%d,%d)" % (r, g, b))
    texts += ["rgba(255,0,0,0.5)", "hsl(123,45%,67%)", "rgba(0,255,255,0.99)"]
    # colours between and around pairs of named colours that lie close together (where a shortcut such
    # as "the first entry that is near enough" differs from "the nearest entry")
    ans = harness_query(["closepairs 4.0"])[0]
    pairs = [tuple(int(x) for x in it.split(":")) for it in ans.split(" ")[1].split(",")] if ans.startswith("ok ") and len(ans) > 3 else []
    res.tag("close-name-pairs", len(pairs))
    for (r1, g1, b1, r2, g2, b2) in pairs[: (25 if tier != "thorough" else 200)]:   # closest pairs first
        for k in range(0, 9):
            for (dr, dg, db) in [(0, 0, 0), (1, 0, 0), (0, 1, 0), (0, 0, 1), (-1, 0, 0), (0, -1, 0), (1, 1, 0), (-1, 1, 0)]:
                q = [min(255, max(0, round(a + (b - a) * k / 8.0) + d)) for (a, b, d) in [(r1, r2, dr), (g1, g2, dg), (b1, b2, db)]]
                texts.append("rgb(%d,%d,%d)" % tuple(q))
    texts = list(dict.fromkeys(texts))
    # every CSS name (reference: the table `cssNamed` of the Lean model, which the kernel compares with
    # the code's table) parses, in any letter case, to its CSS value
    css = _re.findall(r'\("([a-z]+)",\s*(\d+),\s*(\d+),\s*(\d+)\)', open(os.path.join(VERIF, "lean/Pastel/Model/Named.lean")).read().split("def cssNamed")[1].split("]")[0])
    res.check(len(css) == 148, "reference-table-has-148-rows", "lean:cssNamed", "cssNamed", "%d rows" % len(css))
    def camel(n):
        return n[:1] + n[1:].upper()
    def alternate(n):
        return "".join(ch.upper() if i % 2 else ch for i, ch in enumerate(n))
    def last_upper(n):
        return n[:-1] + n[-1:].upper()
    for variant in (str.lower, str.upper, str.title, camel, alternate, last_upper):
        names = [variant(n) for (n, _, _, _) in css]
        rc, out, err = run_cli(["format", "hex"] + names)
        lines = out.decode().split("\n")[:-1]
        res.check(rc == 0 and len(lines) == len(css), "every-css-name-parses", "cli:format-hex", variant.__name__, "rc=%s %d lines %r" % (rc, len(lines), err[-120:]))
        for (n, r, g, b), nm, ln in zip(css, names, lines):
            res.case("css " + nm)
            res.check(ln == "#%02x%02x%02x" % (int(r), int(g), int(b)), "named-colour-has-css-value", "cli:format-hex", nm, "got %s, CSS %s" % (ln, "#%02x%02x%02x" % (int(r), int(g), int(b))))
    # the named constructor functions (Color::navy() ...) return the CSS value of that name, opaque
    ans = harness_query(["consts"])[0]
    cssmap = {n: "%02x%02x%02x" % (int(r), int(g), int(b)) for (n, r, g, b) in css}
    for item in (ans.split(" ")[1].split(",") if ans.startswith("ok ") else []):
        name, rest = item.split("=")
        hx, al = rest.split(":")
        res.case("Color::%s()" % name)
        res.check(cssmap.get(name) == hx and al == "1", "constructor-has-css-value", "Color::" + name, "Color::%s()" % name, "returns #%s alpha %s, CSS %s is #%s" % (hx, al, name, cssmap.get(name)))
    res.check(ans.startswith("ok "), "constructors-listed", "pv-harness consts", "consts", ans[:60])
    near = harness_query(["nearest " + hexs(t) for t in texts])
    inf = infos(texts)
    # run the binary in batches (colours as arguments)
    got = []
    for i in range(0, len(texts), 200):
        rc, out, err = run_cli(["format", "name"] + texts[i:i + 200])
        lines = out.decode().split("\n")
        if lines and lines[-1] == "":
            lines.pop()
        res.check(rc == 0 and len(lines) == len(texts[i:i + 200]), "exit-0", "cli:format-name", str(texts[i:i + 3]), "rc=%s lines=%d" % (rc, len(lines)))
        got += lines
    ops = []
    for t, g, nr, i in zip(texts, got, near, inf):
        res.case("name " + t, True)
        parts = nr.split(" ")
        within = parts[2].split(",")
        exact = [] if parts[3] == "-" else parts[3].split(",")
        res.check(g in within, "name-within-0.001-of-minimum", "cli:format-name", t, "got %s, nearest %s" % (g, within))
        if exact:
            res.check(g == exact[0], "exact-rgb-maps-to-first-synonym", "cli:format-name", t, "got %s, names with this RGB %s" % (g, exact))
        ops.append("name " + i.wire)
    # a dense lattice through stdin, judged by the independent formula only (the model comparison below
    # runs on the smaller set): colours far from every name are where a shortcut in the distance shows
    lstep = 5 if tier == "thorough" else 9
    lattice = ["rgb(%d,%d,%d)" % (r, g, b) for r in range(0, 256, lstep) for g in range(0, 256, lstep) for b in range(0, 256, lstep)]
    rc, out, err = run_cli(["format", "name"], stdin=("\n".join(lattice) + "\n").encode(), timeout=600)
    lnames = out.decode().split("\n")[:-1]
    res.check(rc == 0 and len(lnames) == len(lattice), "exit-0", "cli:format-name", "lattice step %d on stdin" % lstep, "rc=%s lines=%d of %d" % (rc, len(lnames), len(lattice)))
    lnear = harness_query(["nearest " + hexs(t) for t in lattice])
    for t, g, nr in zip(lattice, lnames, lnear):
        res.case("name " + t, True)
        parts = nr.split(" ")
        res.check(g in parts[2].split(","), "name-within-0.001-of-minimum", "cli:format-name", t, "got %s, nearest %s" % (g, parts[2]))
    # Directed search. Where the library's CIEDE2000 differs from the independent transcription by more than the
    # 0.001 C11 allows (the harness reports it per colour), "within 0.001 of the minimum" is no longer guaranteed
    # nearby: look densely around those colours - and, when they are near-grays, along the whole gray axis - for
    # a colour that is given a wrong name. Only a wrong name counts; the metric difference itself is C11's.
    def risk_of(nr):
        t = nr.split(" ")
        return int(t[4]) if len(t) > 4 and t[4].isdigit() else 0
    suspects = sorted([(risk_of(nr), t) for t, nr in list(zip(texts, near)) + list(zip(lattice, lnear)) if risk_of(nr) > 0], reverse=True)
    suspects = [t for (_, t) in suspects]
    if suspects:
        res.tag("directed-search:metric-differs-from-independent-formula", len(suspects))
        extra = []
        drnd = random.Random(seed + 5)
        for t in suspects[: (30 if tier != "thorough" else 300)]:
            m3 = re.match(r"rgb\((\d+),(\d+),(\d+)\)", t)
            if not m3:
                continue
            r0, g0, b0 = (int(x) for x in m3.groups())
            for _ in range(60):
                extra.append("rgb(%d,%d,%d)" % tuple(min(255, max(0, v + drnd.randrange(-8, 9))) for v in (r0, g0, b0)))
            if max(r0, g0, b0) - min(r0, g0, b0) <= 3:
                for k in range(256):
                    extra.append("rgb(%d,%d,%d)" % tuple(min(255, max(0, k + drnd.randrange(-2, 3))) for _ in range(3)))
        extra = list(dict.fromkeys(extra))[:12000]
        rc, out, err = run_cli(["format", "name"], stdin=("\n".join(extra) + "\n").encode(), timeout=600)
        enames = out.decode().split("\n")[:-1]
        res.check(rc == 0 and len(enames) == len(extra), "exit-0", "cli:format-name", "directed search on stdin", "rc=%s lines=%d of %d" % (rc, len(enames), len(extra)))
        for t, g, nr in zip(extra, enames, harness_query(["nearest " + hexs(t) for t in extra])):
            res.case("name " + t, True)
            res.check(g in nr.split(" ")[2].split(","), "name-within-0.001-of-minimum", "cli:format-name", t, "got %s, nearest %s" % (g, nr.split(" ")[2]))
    outs = model_batch(ops)
    for t, g, mo, op in zip(texts, got, outs, ops):
        res.model_op()
        want = unhex(mo.split(" ")[1]).decode() if mo.startswith("ok ") else mo
        if want != g:
            res.disagree(op + "  (" + t + ")", g, want)
    # ---- the interactive view shows 'Name:' precisely for exactly named opaque colours ----
    view = [("red", True), ("aqua", True), ("rebeccapurple", True), ("#ff0001", False), ("rgba(255,0,0,0.5)", False),
            ("rgba(255,0,0,1.0)", True), ("hsl(0,100%,50%)", True), ("#808081", False), ("grey", True)]
    for (t, n, r, g, b) in [(n,) * 1 + (n, r, g, b) for (n, r, g, b) in rows[:: (10 if tier != "thorough" else 1)]]:
        view.append((t, True))
    for (t, want) in view:
        rc, out, err = run_cli(["-m", "off", "color", t], tty=True)
        res.case("view " + t)
        has = b"Name: " in out
        res.check(rc == 0 and has == want, "name-line-iff-exactly-named-opaque", "cli:color(tty)", t, "Name line %s, expected %s" % (has, want))
        if has and want:
            m = re.search(rb"Name: ([a-z]+)", out)
            exact = [n for (n, r, g, b) in rows if infos([t])[0].packed == (int(r) << 16 | int(g) << 8 | int(b))]
            res.check(m is not None and m.group(1).decode() == exact[0], "name-line-first-synonym", "cli:color(tty)", t, "%r vs %s" % (m.group(1) if m else None, exact))


# ------------------------------------------------------------------------------------------ C16

def c16(res, tier, seed, lib):
    # `random` at the command line against the Lean CLI model: the count is validated, exactly N lines
    modelled_family(res, random.Random(seed + 77), ['random'], 60 if tier != "thorough" else 600)
    for strat in ["vivid", "rgb", "gray", "lch_hue"]:
        for n in [0, 1, 2, 10, 1000] + ([65535, 65536, 70000] if strat == "gray" else []):
            rc, out, err = run_cli(["random", "-n", str(n), "-s", strat])
            lines = out.decode().split("\n")
            if lines and lines[-1] == "":
                lines.pop()
            inp = "random -n %d -s %s" % (n, strat)
            res.case(inp, n > 0)
            res.check(rc == 0 and len(lines) == n, "prints-exactly-N", "cli:random", inp, "rc=%s, %d lines" % (rc, len(lines)))
            inf = infos(lines[:200])
            res.check(all(i.ok for i in inf), "each-line-is-a-colour", "cli:random", inp, str([l for l, i in zip(lines, inf) if not i.ok][:3]))
            for l in lines[:200]:
                res.check(not l.startswith("hsla"), "opaque", "cli:random", inp, l)
            # the strategy named on the command line is the one that runs
            for l, i in zip(lines[:200], inf):
                if not i.ok:
                    continue
                h = wire_floats(i)
                if strat == "vivid":
                    res.check(0.1999 <= h[1] <= 0.8001 and 0.2999 <= h[2] <= 0.7001, "vivid-ranges", "cli:random", inp, "%s: s=%r l=%r" % (l, h[1], h[2]))
                elif strat == "gray":
                    r, g, b = rgb_of(i)
                    res.check(r == g == b, "gray-achromatic", "cli:random", inp, l)
    # many colours, judged on the printed text itself: a value in [0.2, 0.8] prints as 20.0 .. 80.0 (one
    # decimal), so every printed vivid saturation / lightness lies in those closed ranges, and a gray prints 0.0%
    big = 200000 if tier == "thorough" else 30000
    for strat in ["vivid", "gray"]:
        rc, out, err = run_cli(["random", "-n", str(big), "-s", strat], timeout=120)
        lines = out.decode().split("\n")[:-1]
        inp = "random -n %d -s %s" % (big, strat)
        res.case(inp)
        res.check(rc == 0 and len(lines) == big, "prints-exactly-N", "cli:random", inp, "rc=%s, %d lines" % (rc, len(lines)))
        bad = []
        for l in lines:
            m = re.match(r"^hsl\((\d+),(\d+\.\d)%,(\d+\.\d)%\)$", l)
            if not m:
                bad.append(l); continue
            hh, ss, ll = int(m.group(1)), float(m.group(2)), float(m.group(3))
            if strat == "vivid" and not (0 <= hh <= 360 and 20.0 <= ss <= 80.0 and 30.0 <= ll <= 70.0):
                bad.append(l)
            if strat == "gray" and not (ss == 0.0 and 0.0 <= ll <= 100.0):
                bad.append(l)
        res.check(not bad, "printed-ranges-%s" % strat, "cli:random", inp, "%d lines outside, e.g. %s" % (len(bad), bad[:3]))
    # defaults: 10 colours of the vivid strategy; strategy names in other letter cases
    rc, out, err = run_cli(["random"])
    lines = out.decode().split("\n")[:-1]
    res.case("random (defaults)")
    res.check(rc == 0 and len(lines) == 10, "default-count-10", "cli:random", "random", "rc=%s %d lines" % (rc, len(lines)))
    for l, i in zip(lines, infos(lines)):
        if i.ok:
            h = wire_floats(i)
            res.check(0.1999 <= h[1] <= 0.8001 and 0.2999 <= h[2] <= 0.7001, "default-strategy-vivid", "cli:random", "random", "%s: s=%r l=%r" % (l, h[1], h[2]))
    for sname, kind in [("VIVID", "vivid"), ("Gray", "gray"), ("GRAY", "gray"), ("Vivid", "vivid")]:
        rc, out, err = run_cli(["random", "-n", "40", "-s", sname])
        res.case("random -s " + sname)
        if rc == 2:
            continue
        lines = out.decode().split("\n")[:-1]
        for l, i in zip(lines, infos(lines)):
            if not i.ok:
                continue
            h = wire_floats(i)
            if kind == "vivid":
                res.check(0.1999 <= h[1] <= 0.8001 and 0.2999 <= h[2] <= 0.7001, "option-value-any-case", "cli:random", "random -s " + sname, "%s: s=%r l=%r" % (l, h[1], h[2]))
            else:
                r, g, b = rgb_of(i)
                res.check(r == g == b, "option-value-any-case", "cli:random", "random -s " + sname, l)
    rc, out, err = run_cli(["random", "-s", "nonsense"])
    res.case("random -s nonsense")
    res.check(rc == 2, "unknown-strategy-is-usage-error", "cli:random", "random -s nonsense", "rc=%s" % rc)


# ------------------------------------------------------------------------------------------ C19

FORMAT_TYPES = ["rgb", "rgb-float", "hex", "hsl", "hsl-hue", "hsl-saturation", "hsl-lightness", "hsv", "hsv-hue",
                "hsv-saturation", "hsv-value", "lch", "lch-lightness", "lch-chroma", "lch-hue", "lab", "lab-a", "lab-b",
                "oklab", "oklab-l", "oklab-a", "oklab-b", "luminance", "brightness", "ansi-8bit", "ansi-24bit", "cmyk", "name"]
SET_PROPS = ["lightness", "hue", "chroma", "lab-a", "lab-b", "oklab-l", "oklab-a", "oklab-b", "red", "green", "blue",
             "hsl-hue", "hsl-saturation", "hsl-lightness", "alpha"]


def bad_color_text(rnd):
    return rnd.choice(["nope", "#12345", "rgb(1,2)", "hsl(1,2,3)", "", " ", "12", "rgb(300", "gray(-1)", "redd", "#ggg", "1e", "ünï", "rgb(1,2,3) x"])


def is_number(t):
    try:
        float(t)
        return t.strip() == t and t not in ("-", "") and not t.lower().lstrip("+-").startswith(("inf", "nan"))
    except ValueError:
        return False


def number_text(rnd, lo, hi):
    k = rnd.randrange(11)
    if k == 10:
        return "-%.3f" % rnd.uniform(lo, hi)
    if k == 0:
        return rnd.choice(["abc", "", "1e", "0x10", " 1", "1 ", "1,5", "--", "١"])
    if k == 1:
        return rnd.choice(["nan", "inf", "NaN", "Infinity", "1e400", "1e-400", "+0.5", ".5", "5.", "1e2", "00.10"])
    if k == 2:
        return str(rnd.randrange(0, 1000))
    return "%.4f" % rnd.uniform(lo, hi)


def stdin_script(rnd):
    """(bytes for the real process, description for the model)"""
    n = rnd.choice([0, 0, 1, 1, 2, 3, 5])
    lines = []
    for _ in range(n):
        k = rnd.randrange(8)
        if k == 0:
            lines.append(("text", bad_color_text(rnd)))
        elif k == 1:
            lines.append(("bin", None))
        elif k == 2:
            lines.append(("text", "  " + rand_color_text(rnd) + " \t"))
        else:
            lines.append(("text", rand_color_text(rnd)))
    data = b""
    desc = []
    for i, (kind, t) in enumerate(lines):
        last = i == len(lines) - 1
        if kind == "bin":
            data += b"\xff\xfe\x80" + (b"" if (last and rnd.random() < 0.3) else b"\n")
            desc.append("!")
        else:
            if "\n" in t:
                t = t.replace("\n", " ")
            # (an empty last line without a newline is no line at all: always terminate it)
            data += t.encode() + (b"" if (last and t != "" and rnd.random() < 0.3) else b"\n")
            desc.append(hexs(t))
    return data, desc


def modelled_case(rnd, subs=None, format_types=None):
    # (textcolor, to-gray and `format ansi-8bit` are described by relations, not as functions: they have direct
    # oracles in C09 / C12 and are not compared with the model here)
    sub = rnd.choice(subs or ["color", "lighten", "darken", "saturate", "desaturate", "rotate", "complement",
                              "colorblind", "set", "format", "mix", "color", "format", "set", "gray", "gradient", "sort-by", "paint", "random", "distinct", "pick"])
    if sub in ("lighten", "darken", "saturate", "desaturate"):
        cargs = [number_text(rnd, 0, 1)]
    elif sub == "rotate":
        cargs = [number_text(rnd, 0, 720)]
    elif sub == "colorblind":
        cargs = [rnd.choice(["prot", "deuter", "trit", "PROT", "Deuter", "tRIT", "Trit", "dEUTER"])]
    elif sub == "set":
        p = rnd.choice(SET_PROPS)
        cargs = [rnd.choice([p, p.upper(), p.title(), p.swapcase()]), number_text(rnd, 0, 255 if p in ("red", "green", "blue") else 1)]
    elif sub == "format":
        t = rnd.choice(format_types or [x for x in FORMAT_TYPES if x != "ansi-8bit"])
        cargs = [rnd.choice([t, t, t.upper(), t.title()])]
    elif sub == "mix":
        base = rnd.choice([rand_color_text(rnd), rand_color_text(rnd), bad_color_text(rnd), "-"])
        cargs = [base, number_text(rnd, 0, 1), rnd.choice(["Lab", "LCh", "RGB", "HSL", "OkLab", "lab", "rgb", "oklab", "Rgb", "LCH", "hSL", "OKLAB", "lch", "LAB"])]
    elif sub == "gray":
        cargs = [number_text(rnd, 0, 1)]
    elif sub == "gradient":
        cargs = [rnd.choice(["2", "3", "5", "7", "12", "+4", "1", "0", "-1", "2.0", "x", "", "03", " 3", "18446744073709551616"]),
                 rnd.choice(["Lab", "LCh", "RGB", "HSL", "OkLab", "lab", "rgb", "oklab", "hsl", "LCH"])]
    elif sub == "sort-by":
        cargs = [rnd.choice(["brightness", "luminance", "hue", "chroma"]), rnd.choice(["0", "0", "1"]), rnd.choice(["0", "0", "1"])]
    elif sub == "random":
        cargs = [rnd.choice(["0", "1", "3", "7", "+2", "010", "x", "", "-1", "2.0", " 3", "18446744073709551616", "1e2"])]
    elif sub == "distinct":
        cargs = [rnd.choice(["2", "2", "3", "3", "4", "1", "0", "+2", "x", "", "-3", "2.5"]), rnd.choice(["0", "0", "1"])]
    elif sub == "pick":
        cargs = [rnd.choice(["0", "1", "2", "x", "", "-1", "+1", "1.0"])]
    elif sub == "paint":
        cargs = [rnd.choice([rand_color_text(rnd), rand_color_text(rnd), "default", " default ", "-", bad_color_text(rnd)]),
                 rnd.choice(["", "", rand_color_text(rnd), bad_color_text(rnd), "-"]), rnd.choice(["0", "0", "1"])]
    else:
        cargs = []
    ncol = rnd.choice([0, 0, 1, 1, 2, 3, 6])
    if sub in ("gray", "random", "pick"):
        ncol = 0
    if sub == "distinct":
        ncol = rnd.choice([0, 0, 1, 2, 3, 4])
    if sub == "gradient":
        ncol = rnd.choice([1, 2, 2, 3, 4, 5])
    if sub == "paint":
        ncol = rnd.choice([1, 1, 2, 3])
    colors = []
    for _ in range(ncol):
        k = rnd.randrange(10)
        colors.append(bad_color_text(rnd) if k == 0 else ("-" if k == 1 else rand_color_text(rnd)))
    colors = [c for c in colors if c == "-" or not c.startswith("-")]
    # neighbours: two consecutive colours that are equal as 8-bit colours (or nearly) but print differently -
    # whatever is remembered from one colour must not leak into the next line
    if len(colors) >= 2 and rnd.random() < 0.3:
        i = rnd.randrange(len(colors) - 1)
        hh, ss, ll = rnd.randrange(360), rnd.uniform(0, 100), rnd.uniform(0.5, 99)
        colors[i] = "hsl(%d,%.1f%%,%.1f%%)" % (hh, ss, ll)
        colors[i + 1] = rnd.choice(["hsl(%d,%.1f%%,%.1f%%)" % (hh, ss, ll + 0.1), "hsl(%d,%.1f%%,%.1f%%)" % (hh, min(100.0, ss + 0.1), ll),
                                    "hsl(%d,%.1f%%,%.1f%%)" % (hh, ss, ll), "hsla(%d,%.1f%%,%.1f%%,0.999)" % (hh, ss, ll)])
    if sub == "gradient" and not colors:
        colors = ["red"]
    if sub == "paint":
        # the words of the text (no leading dash, not empty: clap would read options / drop them)
        colors = [rnd.choice(["hello", "wörld", "a b", "x", "1", "red", "pick", "🎨", "tab\tbed"]) for _ in range(ncol)]
    # an empty colour argument is fine for clap (positional, explicit empty string)
    data, desc = stdin_script(rnd)
    if sub == "mix":
        argv = ["mix", "-f", cargs[1], "-s", cargs[2], cargs[0]] + colors
        if (cargs[1].startswith("-") and not is_number(cargs[1])) or cargs[0].startswith("-") and cargs[0] != "-":
            argv = None
    elif sub == "gradient":
        argv = ["gradient", "-n", cargs[0], "-s", cargs[1]] + colors
        if cargs[0].startswith("-") and not is_number(cargs[0]):
            argv = None
    elif sub == "random":
        argv = ["random", "-s", rnd.choice(["vivid", "rgb", "gray", "lch_hue"]), "-n", cargs[0]]
        if cargs[0].startswith("-") and not is_number(cargs[0]):
            argv = None
    elif sub == "pick":
        argv = ["pick", cargs[0]]
        if cargs[0].startswith("-") and not is_number(cargs[0]):
            argv = None
    elif sub == "distinct":
        argv = ["distinct", cargs[0]] + (["--print-minimal-distance"] if cargs[1] == "1" else []) + (["-m", rnd.choice(["CIE76", "CIEDE2000"])] if rnd.random() < 0.3 else []) + colors
        if cargs[0].startswith("-") and not is_number(cargs[0]):
            argv = None
    elif sub == "sort-by":
        argv = ["sort-by", cargs[0]] + (["-u"] if cargs[1] == "1" else []) + (["-r"] if cargs[2] == "1" else []) + colors
    elif sub == "paint":
        if (cargs[0].startswith("-") and cargs[0] != "-") or (cargs[1].startswith("-") and cargs[1] != "-"):
            argv = None
        else:
            argv = ["paint"] + (["-o", cargs[1]] if cargs[1] != "" else []) + (["-n"] if cargs[2] == "1" else []) + [cargs[0]] + colors
    else:
        argv = [sub] + cargs + colors
        if any(a.startswith("-") and a != "-" and not is_number(a) for a in cargs):
            argv = None
    op = "cli %s %d %s %d %s %d %s" % (sub, len(cargs), " ".join(hexs(a) for a in cargs), len(colors),
                                         " ".join(hexs(c) for c in colors), len(desc), " ".join(desc))
    op = " ".join(op.split())
    return argv, data, op


# subcommands whose printed lines the model does not predict (random colours, a distance): only their number
UNPREDICTED_OUTPUT = ("random", "distinct", "pick")


def modelled_family(res, rnd, subs, n, format_types=None):
    """Random invocations of the given subcommands (random amounts incl. overshoot and malformed numbers,
    option values in any letter case, colours as arguments / `-` / stdin lines incl. bad and non-UTF-8
    ones): exit status, stdout bytes, error class and message must equal the Lean model's."""
    ops, meta = [], []
    for _ in range(n):
        argv, data, op = modelled_case(rnd, subs, format_types)
        if argv is None:
            continue
        rc, out, err = run_cli(argv, stdin=data)
        generic_oracle(res, argv, rc, out, err, allow_partial_line=(argv[0] == "paint" and "-n" in argv))
        cls, msg = classify_stderr(err)
        res.case(op, True)
        res.tag("modelled:" + argv[0])
        res.tag("modelled:%s:%s" % (argv[0], "ok" if rc == 0 else (cls or "rc%d" % rc)))
        if argv[0] in UNPREDICTED_OUTPUT:
            out = b"".join(b"?\n" for _ in out.split(b"\n")[:-1]) + (b"" if out.endswith(b"\n") or out == b"" else b"<partial>")
        impl = "ok %d %s %s %s" % (rc, hexs(out), cls or "-", hexs(msg or ""))
        ops.append(op); meta.append((op, argv, impl, data))
    compare_cli_with_model(res, meta, model_batch(ops))


def compare_cli_with_model(res, meta, outs):
    """meta: (op, argv, impl line, stdin bytes); outs: the model's lines."""
    pending = []
    for (op, argv, impl, data), mo in zip(meta, outs):
        res.model_op()
        if canon_cli(mo) != canon_cli(impl):
            named = unpinned_error_choice(argv, impl, mo, data)
            if named is not None:
                pending.append((op, argv, impl, mo, named))
                continue
            def show(x):
                t = x.split(" ")
                try:
                    return "%s %s stdout=%r %s msg=%r" % (t[0], t[1], unhex(t[2])[:300], t[3], unhex(t[4])[:200])
                except Exception:
                    return x[:300]
            res.disagree("%r  [%s]" % (argv, op[:300]), show(impl), show(mo))
    # commands that read several texts before printing anything (the colours of distinct / gradient / sort-by,
    # the base of mix, the two colours of paint) and that fail: *which* of several applicable errors is reported
    # is not pinned by any property. The implementation may name another unreadable colour than the model
    # does - provided the text it names was given and really is unreadable (asked of the model's parser).
    if pending:
        answers = model_batch(["cli color 0 1 %s 0" % hexs(n) for (_, _, _, _, n) in pending])
        for (op, argv, impl, mo, named), ans in zip(pending, answers):
            res.model_op()
            if ans.split(" ")[:2] == ["ok", "1"]:
                res.tag("unpinned-error-choice:names-another-unreadable-colour")
            else:
                res.disagree("%r  [%s]" % (argv, op[:300]), impl[:300], mo[:300])


COLLECT_FIRST = ("distinct", "gradient", "sort-by", "mix", "paint")


def unpinned_error_choice(argv, impl, mo, data=None):
    """Both runs fail (exit 1) after the same output, in a command that collects its inputs first, and the
    implementation reports a parse error naming a text that was given on the command line or on stdin: returns
    that text (still to be confirmed unreadable), else None."""
    ti, tm = impl.split(" "), mo.split(" ")
    if len(ti) != 5 or len(tm) != 5 or ti[0] != "ok" or tm[0] != "ok":
        return None
    if ti[1] != "1" or tm[1] != "1" or ti[2] != tm[2] or argv[0] not in COLLECT_FIRST or ti[3] != "color-parse":
        return None
    try:
        msg = unhex(ti[4])
        msg = msg.decode("utf-8", "replace") if isinstance(msg, bytes) else msg
    except Exception:
        return None
    m = re.match(r"Could not parse color '(.*)'$", msg, re.S)
    if not m:
        return None
    named = m.group(1)
    given = list(argv[1:])
    if data:
        given += [l.decode("utf-8", "replace") for l in data.split(b"\n")]
    return named if named in given else None


def canon_cli(line):
    """Canonical form of an `ok <rc> <stdout> <class> <message>` line for the model comparison: the wording of
    an error message is pinned by the properties only for the parse error ("Could not parse color '<text>'",
    which must name the text); every other pastel error is compared as "an error", whatever its words."""
    t = line.split(" ")
    if len(t) == 5 and t[0] == "ok":
        # a printed negative zero ("-0", "-0.0%", "-0.0000") is compared as zero: which zero `f64::max/min` return
        # for (-0.0, +0.0) is unspecified in Rust (it differs between debug and release builds of the same code), so
        # the sign of a zero that went through `clamp` is not something the model can pin
        try:
            out = unhex(t[2])
            out2 = re.sub(rb"(?<![0-9.eE])-(0(?:\.0+)?)(?![0-9.])", rb"\1", out)
            if out2 != out:
                t[2] = hexs(out2)
        except Exception:
            pass
        if t[3] not in ("-", "color-parse"):
            return " ".join(t[:3] + ["error", "-"])
        return " ".join(t)
    return line


def strip_sgr(b):
    return re.sub(rb"\x1b\[[0-9;]*m", b"", b)


def classify_stderr(err):
    err = strip_sgr(err)
    m = re.search(rb"\[pastel error\]: (.*)", err)
    if not m:
        return None, None
    msg = m.group(1).decode("utf-8", "replace")
    if msg.startswith("Could not parse color"):
        return "color-parse", msg
    if msg.startswith("Color input contains invalid UTF8"):
        return "invalid-utf8", msg
    if msg.startswith("Could not read color from standard input"):
        return "no-stdin", msg
    if msg.startswith("A color argument needs"):
        return "color-arg-required", msg
    if msg.startswith("Could not parse number"):
        return "number", msg
    if msg.startswith("Could not find any external color picker"):
        return "no-picker", msg
    return "other", msg


def generic_oracle(res, argv, rc, out, err, allow_partial_line=False):
    inp = repr(argv)[:600]
    err = strip_sgr(err)
    res.check(rc in (0, 1, 2), "exit-0-1-2", "cli", inp, "rc=%s stderr=%r" % (rc, err[-300:]))
    res.check(b"panicked at" not in err and b"RUST_BACKTRACE" not in err, "no-panic", "cli", inp, repr(err[-400:]))
    if rc == 1:
        n = err.count(b"[pastel error]:")
        res.check(n == 1, "one-pastel-error-message", "cli", inp, repr(err[-300:]))
    if rc == 2:
        res.check(b"error:" in err or b"USAGE" in err or b"Usage" in err, "usage-error-on-stderr", "cli", inp, repr(err[-200:]))
    if not allow_partial_line:
        res.check(out == b"" or out.endswith(b"\n"), "complete-lines", "cli", inp, repr(out[-80:]))


def c19(res, tier, seed, lib):
    rnd = random.Random(seed)
    # ---- A. modelled family: exit status, stdout bytes, error class and message vs the Lean model ----
    n = 6000 if tier == "thorough" else 700
    ops, meta = [], []
    for _ in range(n):
        argv, data, op = modelled_case(rnd)
        if argv is None:
            continue
        rc, out, err = run_cli(argv, stdin=data)
        generic_oracle(res, argv, rc, out, err, allow_partial_line=(argv[0] == "paint" and "-n" in argv))
        cls, msg = classify_stderr(err)
        res.case(op, True)
        res.tag("modelled:" + argv[0]); res.tag("modelled:rc=%s" % rc)
        if cls:
            res.tag("modelled:err=" + cls)
        if argv[0] in UNPREDICTED_OUTPUT:
            out = b"".join(b"?\n" for _ in out.split(b"\n")[:-1]) + (b"" if out.endswith(b"\n") or out == b"" else b"<partial>")
        impl = "ok %d %s %s %s" % (rc, hexs(out), cls or "-", hexs(msg or ""))
        ops.append(op); meta.append((op, argv, impl, data))
    compare_cli_with_model(res, meta, model_batch(ops))
    # ---- prefix property (direct oracle, through the library): colours as args / stdin / '-' identical ----
    for _ in range(60 if tier != "thorough" else 600):
        texts = [rand_color_text(rnd) for _ in range(rnd.randrange(1, 5))]
        rc1, out1, _ = run_cli(["color"] + texts)
        rc2, out2, _ = run_cli(["color"], stdin="".join(t + "\n" for t in texts).encode())
        rc3, out3, _ = run_cli(["color"] + ["-"] * len(texts), stdin="".join(t + "\n" for t in texts).encode())
        res.case("same " + repr(texts))
        res.check(rc1 == rc2 == rc3 == 0 and out1 == out2 == out3, "args-stdin-dash-identical", "cli:io", repr(texts), "%r %r %r" % (out1[:80], out2[:80], out3[:80]))
        # the same with a blank / unparsable entry somewhere: arguments and stdin lines must agree on
        # exit status and stdout (the error text may differ in surrounding blanks only)
        kk = rnd.randrange(len(texts) + 1)
        junk = rnd.choice(["", " ", "nope", "\t"])
        withjunk = texts[:kk] + [junk] + texts[kk:]
        ra = run_cli(["format", "hex"] + withjunk)
        rs = run_cli(["format", "hex"], stdin="".join(t + "\n" for t in withjunk).encode())
        res.check(ra[0] == rs[0] and ra[1] == rs[1], "args-stdin-identical-with-bad-entry", "cli:io", repr(withjunk), "args: rc=%s %r; stdin: rc=%s %r" % (ra[0], ra[1][:80], rs[0], rs[1][:80]))
        # a bad colour in the middle: complete lines for the ones before, error names it, exit 1
        k = rnd.randrange(len(texts) + 1)
        bad = bad_color_text(rnd).strip() or "nope"
        mixed = texts[:k] + [bad] + texts[k:]
        rc, out, err = run_cli(["lighten", "0.1"] + mixed)
        good = run_cli(["lighten", "0.1"] + texts[:k])[1] if k else b""
        res.check(rc == 1 and out == good and ("'%s'" % bad).encode() in err, "prefix-then-error-naming-text", "cli:execute", repr(mixed), "rc=%s out=%r err=%r" % (rc, out[:100], err[-120:]))
    # ---- huge counts: the commands that allocate per requested colour, under a 1.5 GB address-space limit ----
    for argv in [["distinct", "18446744073709551615"], ["distinct", "9223372036854775807", "red"], ["distinct", "400000000000"],
                 ["random", "-n", "18446744073709551615"], ["gradient", "-n", "18446744073709551615", "red", "blue"],
                 ["distinct", "18446744073709551616"], ["random", "-n", "18446744073709551616"], ["gradient", "-n", "18446744073709551616", "red", "blue"]]:
        rc, out, err = run_cli_limited(argv, 1500 * 1024 * 1024, timeout=90 if argv[0] == "distinct" else 5)
        res.case(" ".join(argv))
        if rc == -999 and argv[0] != "distinct":
            continue  # streaming commands: still printing complete lines when stopped, no verdict on termination here
        res.check(rc in (0, 1, 2), "huge-count-exit-0-1-2", "cli:" + argv[0], " ".join(argv),
                  "rc=%s stderr=%r" % ("still running after 90 s" if rc == -999 else rc, strip_sgr(err)[:160]))
    # ---- stderr that cannot be written (full device, reader gone): still exit 0/1/2, never a panic ----
    if os.path.exists("/dev/full"):
        for argv in [[b"\xff"], [b"color", b"red", b"\xfe"], [b"color", b"nope"], [b"--nosuchflag"], [b"lighten", b"x", b"red"], [b"color", b"red"],
                     [b"distinct", b"-v", b"2"], [b"format", b"hex", b"pick"], [b"gradient", b"-n", b"1", b"red", b"blue"]]:
            for kind in ["full", "closed-reader"]:
                if kind == "full":
                    with open("/dev/full", "wb") as ef:
                        p = subprocess.run([BIN] + argv, stdin=subprocess.DEVNULL, stdout=subprocess.PIPE, stderr=ef, env=base_env(None), timeout=60)
                    rc = p.returncode
                else:
                    r, w = os.pipe()
                    os.close(r)
                    p = subprocess.Popen([BIN] + argv, stdin=subprocess.DEVNULL, stdout=subprocess.PIPE, stderr=w, env=base_env(None))
                    os.close(w)
                    p.communicate(timeout=60)
                    rc = p.returncode
                inp = "%r with stderr %s" % (argv, kind)
                res.case(inp)
                res.check(rc in (0, 1, 2), "exit-0-1-2-with-unwritable-stderr", "cli:main", inp, "rc=%s" % rc)
    # ---- the program name is not an argument: a non-UTF-8 argv[0] must not change anything ----
    for argv in [["color", "red"], ["format", "hex", "blue"], ["lighten", "0.1", "green"]]:
        ref = run_cli(argv)
        p = subprocess.run([b"p\xff\xfe"] + [a.encode() for a in argv], executable=BIN, stdin=subprocess.DEVNULL, stdout=subprocess.PIPE, stderr=subprocess.PIPE, env=base_env(None), timeout=30)
        res.case("argv[0]=p\\xff\\xfe " + " ".join(argv))
        res.check(p.returncode == ref[0] == 0 and p.stdout == ref[1], "program-name-is-not-an-argument", "cli:main", "argv[0]=b'p\\xff\\xfe' " + " ".join(argv),
                  "rc=%s stdout=%r stderr=%r (with an ordinary program name: rc=%s %r)" % (p.returncode, p.stdout[:60], strip_sgr(p.stderr)[:100], ref[0], ref[1][:60]))
    # ---- gradient with any number of colour arguments ----
    gpal = [rand_color_text(rnd) for _ in range(130)]
    for k in range(2, 131):
        argv = ["gradient", "-n", "3"] + gpal[:k]
        rc, out, err = run_cli(argv)
        res.case("gradient with %d colours" % k)
        generic_oracle(res, ["gradient", "-n", "3", "<%d colours>" % k], rc, out, err)
        res.check(rc == 0 and out.count(b"\n") == 3, "gradient-any-number-of-stops", "cli:gradient", "gradient -n 3 <%d colours>" % k, "rc=%s stderr=%r" % (rc, strip_sgr(err)[:160]))
    # ---- long lists through the commands that collect all colours before printing ----
    for ln in [21, 64, 300]:
        texts = [rand_color_text(rnd) for _ in range(ln)]
        for key in ["random", "brightness", "hue"]:
            for argv, data in [(["sort-by", key] + texts, b""), (["sort-by", key], "".join(t + "\n" for t in texts).encode())]:
                rc, out, err = run_cli(argv, stdin=data)
                res.case("sort-by %s with %d colours" % (key, ln))
                generic_oracle(res, argv[:2] + ["<%d colours>" % ln], rc, out, err)
                res.check(rc == 0 and out.count(b"\n") == ln, "long-list-sorted-without-failure", "cli:sort-by", "sort-by %s <%d colours via %s>" % (key, ln, "stdin" if data else "arguments"),
                          "rc=%s, %d lines, stderr=%r" % (rc, out.count(b"\n"), strip_sgr(err)[:160]))
    # ---- B. oracle-only families: every subcommand with defective arguments ----
    subs = ["color", "list", "random", "distinct", "sort-by", "pick", "format", "paint", "gradient", "mix", "colorblind", "set",
            "saturate", "desaturate", "lighten", "darken", "rotate", "complement", "gray", "to-gray", "textcolor", "colorcheck",
            "nosuchcommand", "", "help"]
    weird = ["", " ", "-", "--", "-x", "--nope", "-1", "-0.5", "1e999", "-1e999", "nan", "0", "1", "2", "99999999999999999999",
             "red", "nope", "#ff", "pick", "\x00"[:0] + "a" * 5000, "ünï", "🎨", b"\xff\xfe", "--help", "-h", "-V", "-n", "-n0", "-n=3", "-s", "-s=rgb", "-f", "-m", "-m=off", "--color-mode=8bit",
             "--force-color", "-o", "-b", "-i", "-u", "-r", "--metric", "CIE76", "--print-minimal-distance", "-v", "hue", "prot", "alpha"]
    m = 5000 if tier == "thorough" else 500
    for i in range(m):
        sub = rnd.choice(subs)
        k = rnd.choice([0, 1, 1, 2, 2, 3, 4])
        argv = ([] if rnd.random() < 0.9 else [rnd.choice(["-f", "-m", "off", "-m", "--color-picker", "gpick"])]) + [sub] + [rnd.choice(weird) for _ in range(k)]
        if sub == "distinct" and not any(a in ("-h", "--help", "-V") for a in argv):
            # keep the optimiser short: only tiny counts reach it
            argv = [a if not (isinstance(a, str) and a.isdigit() and int(a) > 3) else "3" for a in argv]
        if sub == "random":
            argv = [a if not (isinstance(a, str) and a.isdigit() and int(a) > 2000) else "7" for a in argv]
        mode = rnd.randrange(5)
        if mode == 0:
            data = b""
        elif mode == 1:
            data = None            # /dev/null
        elif mode == 2:
            data = bytes(rnd.randrange(256) for _ in range(rnd.randrange(40)))
        else:
            data = stdin_script(rnd)[0]
        try:
            rc, out, err = run_cli(argv, stdin=data, timeout=60, tty=(rnd.random() < 0.15))
        except subprocess.TimeoutExpired:
            res.case("timeout " + repr(argv))
            res.fail("terminates", "cli", repr(argv), "no exit within 60 s")
            continue
        res.case("weird " + repr(argv)[:200], True)
        res.tag("weird:" + (sub or "(empty)")); res.tag("weird:rc=%s" % rc)
        generic_oracle(res, argv, rc, out, err, allow_partial_line=True)
    # ---- C. faults: reader closes stdout early; stdin closed; fake colour pickers ----
    fault_cmds = [["list"], ["random", "-n", "500"], ["color", "red", "blue", "green"], ["gradient", "-n", "50", "red", "blue"],
                  ["sort-by", "hue", "red", "blue", "green", "yellow"], ["format", "hex", "red", "blue"], ["colorcheck"],
                  ["paint", "red", "x" * 200], ["distinct", "2"]]
    for cmd in fault_cmds:
        full = run_cli(cmd)[1]
        for k in [0, 1, 5, 100]:
            rc, got, err = run_cli(cmd, close_stdout_after=k, timeout=60)
            res.case("closed-stdout %r after %d" % (cmd, k))
            inp = "%r, reader closes after %d bytes" % (cmd, k)
            res.check(rc in (0, 1, 2) and b"panicked" not in err, "stdout-closed-early-no-panic", "cli:error.rs", inp, "rc=%s err=%r" % (rc, err[-200:]))
            if cmd[0] not in ("random", "distinct"):
                res.check(full.startswith(got), "stdout-closed-early-prefix", "cli:error.rs", inp, repr(got[:60]))
    # closed stdin (fd 0 not open at all)
    for cmd in [["color"], ["color", "-"], ["paint", "red"], ["sort-by", "hue"], ["format", "hex"]]:
        p = subprocess.Popen([BIN] + cmd, stdin=subprocess.DEVNULL, stdout=subprocess.PIPE, stderr=subprocess.PIPE, env=base_env(),
                             preexec_fn=lambda: os.close(0))
        out, err = p.communicate(timeout=30)
        res.case("closed-stdin %r" % cmd)
        generic_oracle(res, cmd + ["<stdin closed>"], p.returncode, out, err, allow_partial_line=True)
    # fake pickers
    import tempfile, stat, shutil
    d = tempfile.mkdtemp(prefix="pv-picker-", dir=BUILD)
    try:
        def fake(body):
            path = os.path.join(d, "gpick")
            with open(path, "w") as fh:
                fh.write("#!/bin/sh\nif [ \"$1\" = \"--version\" ]; then echo 'Gpick 0.2'; exit 0; fi\n" + body + "\n")
            os.chmod(path, 0o755)
        cases = [("absent", None, "no-picker"), ("exit-nonzero", "exit 3", "other"), ("garbage", "echo 'not a colour'", "color-parse"),
                 ("non-utf8", "printf '\\377\\376'", "invalid-utf8"), ("valid", "echo '#ff8800'", None),
                 ("empty", "true", "color-parse"), ("prints-pick", "echo pick", "color-parse"), ("prints-dash", "echo -", "color-parse")]
        for (name, body, want) in cases:
            env = {"PATH": d + ":/usr/bin:/bin"} if body is not None else {"PATH": "/nonexistent"}
            if body is not None:
                fake(body)
            for cmd in [["color", "pick"], ["pick"], ["mix", "pick", "red"], ["paint", "pick", "x"]]:
                try:
                    rc, out, err = run_cli(cmd, env=env, timeout=10)
                except subprocess.TimeoutExpired:
                    res.case("picker %s %r" % (name, cmd))
                    res.fail("terminates", "cli:colorpicker", "picker %s, %r" % (name, cmd), "no exit within 10 s")
                    continue
                res.case("picker %s %r" % (name, cmd))
                generic_oracle(res, cmd + ["<picker:%s>" % name], rc, out, err, allow_partial_line=True)
                cls, msg = classify_stderr(err)
                if want is None:
                    res.check(rc == 0, "picker-valid-works", "cli:colorpicker", "%s %r" % (name, cmd), "rc=%s %r" % (rc, err[-200:]))
                else:
                    # exit 1 with one pastel error; only the parse error's wording is pinned by a property
                    # ("Could not parse color", C01) - the other messages may be worded freely
                    ok_cls = (cls == want) if want == "color-parse" else (cls is not None)
                    res.check(rc == 1 and ok_cls, "picker-failure-is-a-pastel-error", "cli:colorpicker", "%s %r" % (name, cmd), "rc=%s class=%s msg=%r" % (rc, cls, msg))
        # the prefix property with `pick` among the colour arguments: the colours before an unreadable literal are
        # printed (the picked one included), the error names the literal - whether it comes before or after `pick`
        fake("echo '#ff8800'")
        env = {"PATH": d + ":/usr/bin:/bin"}
        for sub in [["color"], ["format", "hex"], ["lighten", "0.1"], ["to-gray"]]:
            for (cols, good) in [(["red", "pick", "foo"], ["red", "#ff8800"]), (["red", "foo", "pick"], ["red"]), (["pick", "red", "foo", "blue"], ["#ff8800", "red"]),
                                 (["red", "blue", "pick", "teal", "nope", "pick"], ["red", "blue", "#ff8800", "teal"])]:
                try:
                    rc, out, err = run_cli(sub + cols, env=env, timeout=10)
                    rc0, want, _ = run_cli(sub + good, env=env, timeout=10)
                except subprocess.TimeoutExpired:
                    res.fail("terminates", "cli:colorpicker", repr(sub + cols), "no exit within 10 s")
                    continue
                res.case("picker-prefix %r" % (sub + cols))
                cls, msg = classify_stderr(err)
                bad = [c for c in cols if c not in ("pick",) and c not in good][0]
                res.check(rc == 1 and rc0 == 0 and out == want and cls == "color-parse" and ("'%s'" % bad) in (msg or ""), "prefix-printed-before-error-with-pick", "cli:colorpicker",
                          repr(sub + cols), "rc=%s stdout=%r (expected %r) error=%r" % (rc, out[:120], want[:120], msg))
    finally:
        shutil.rmtree(d, ignore_errors=True)
    # an argument that is not valid UTF-8, in every position relative to known and unknown flags
    bad = b"\xff\xfe"
    for sub in ["color", "format", "distinct", "paint", "list", "random", "sort-by", "mix", "gradient", "set", "lighten", "colorblind", "pick", "gray"]:
        for argv in [[sub, bad], [sub, "--nope", bad], [sub, "--force-color", bad], [sub, "-x", bad], [sub, bad, "--nope"], ["--nope", sub, bad],
                     ["-m", bad, sub], [sub, "red", bad], [bad], [sub, "--", bad], [sub, "--nope", "--", bad], [sub, "--", "--nope", bad],
                     ["--nope", "--", sub, bad], [sub, "--nope=1", "--", "red", bad], [sub, "-x", "--", bad], ["--", sub, bad]]:
            rc, out, err = run_cli(argv, timeout=20)
            res.case(repr(argv))
            generic_oracle(res, argv, rc, out, err, allow_partial_line=True)
    # `distinct` with the same fixed colour more than once (all colours fixed: quick and deterministic)
    for argv in [["distinct", "2", "red", "red"], ["distinct", "2", "red", "ff0000"], ["distinct", "3", "red", "blue", "red"],
                 ["distinct", "3", "#123", "#123", "#123"], ["distinct", "-m", "CIE76", "2", "gray", "grey"], ["distinct", "3", "red", "red"]]:
        try:
            rc, out, err = run_cli(argv, timeout=120)
        except subprocess.TimeoutExpired:
            res.fail("terminates", "cli:distinct", repr(argv), "no exit within 120 s")
            continue
        res.case(repr(argv))
        generic_oracle(res, argv, rc, out, err)
        res.check(rc == 0 and out.count(b"\n") == int(argv[-len([a for a in argv[1:] if not a.startswith("-") and not a.isdigit() and a != "CIE76"]) - 1]), "distinct-with-repeated-fixed-colours", "cli:distinct", repr(argv), "rc=%s %r" % (rc, out[:80]))
    stdin_dups = b"teal\nteal\n"
    rc, out, err = run_cli(["distinct", "2", "-", "-"], stdin=stdin_dups, timeout=120)
    res.case("distinct 2 - - < teal teal")
    generic_oracle(res, ["distinct", "2", "-", "-", "<teal,teal>"], rc, out, err)
    # numerically extreme counts for `pick` (no picker available: must fail cleanly at once)
    for cnt in ["18446744073709551615", "9223372036854775807", "1152921504606846976", "1000000000000", "400000000000000", "0", "1",
                "18446744073709551616", "-1", "1e3"]:
        argv = ["pick", cnt]
        try:
            rc, out, err = run_cli(argv, env={"PATH": "/nonexistent"}, timeout=20)
        except subprocess.TimeoutExpired:
            res.case("pick " + cnt)
            res.fail("terminates", "cli:pick", "pick " + cnt, "no exit within 20 s")
            continue
        res.case("pick " + cnt)
        generic_oracle(res, argv + ["<no picker>"], rc, out, err, allow_partial_line=True)
    # every tool of the picker table (read from the source on each run) x reply shapes
    import re as _re
    src = open("/repo/src/cli/colorpicker_tools.rs").read()
    tools = []
    for blk in src.split("ColorPickerTool {")[1:]:
        mc = _re.search(r'command:\s*"([^"]+)"', blk)
        mv = _re.search(r'version_args:\s*&\[([^\]]*)\]', blk, _re.S)
        mp = _re.search(r'version_output_starts_with:\s*b"([^"]*)"', blk)
        if not (mc and mv and mp) or "osascript" in mc.group(1):
            continue
        vargs = _re.findall(r'"((?:[^"\\]|\\.)*)"', mv.group(1))
        tools.append((mc.group(1), vargs, mp.group(1), "post_process: Some" in blk))
    res.d["notes"].append("picker tools read from the source: %s" % ", ".join(t[0] for t in tools))
    plain = [("valid", "#10aa20", 0), ("garbage", "zzz", 1), ("empty", "", 1), ("two-lines", "red\nblue", 1), ("spaces", "   #fff   ", 0)]
    gd = [("valid", "({'color': <(0.5, 0.25, 0.125)>},)", 0), ("two-components", "({'color': <(0.5, 0.25)>},)", 1),
          ("one-component", "({'color': <(0.5)>},)", 1), ("trailing-comma", "({'color': <(0.5,)>},)", 1),
          ("four-components", "({'color': <(0.5, 0.25, 0.1, 1.0)>},)", 1), ("no-components", "({'color': <()>},)", 1),
          ("one-paren", "(", 1), ("two-parens", "((", 1), ("garbage", "garbage", 1), ("empty", "", 1),
          ("nan", "({'color': <(nan, inf, -1)>},)", None), ("huge", "({'color': <(1e308, 1e308, 1e308)>},)", None),
          ("neg-inf", "({'color': <(-inf, 0.0, 0.0)>},)", None), ("neg-overflow", "({'color': <(-1e999, 0.0, 0.0)>},)", None),
          ("neg-nan", "({'color': <(0.0, -nan, 0.0)>},)", None), ("neg-1e307", "({'color': <(-1e307, 0.0, 0.0)>},)", None),
          ("pos-1e307", "({'color': <(0.0, 1e307, 0.0)>},)", None),
          ("words", "({'color': <(a, b, c)>},)", 1), ("five", "((1,2,3,4,5", 1), ("exact-3-no-close", "((0.1,0.2,0.3", 0)]
    d = tempfile.mkdtemp(prefix="pv-picker-", dir=BUILD)
    try:
        for (name, vargs, prefix, post) in tools:
            for (label, reply, want_rc) in (gd if post else plain):
                for f in os.listdir(d):
                    os.unlink(os.path.join(d, f))
                path = os.path.join(d, name)
                with open(d + "/reply.txt", "w") as fh:
                    fh.write(reply + "\n")
                with open(path, "w") as fh:
                    fh.write("#!/bin/sh\nif [ \"$*\" = \"%s\" ]; then echo '%s 1.0'; exit 0; fi\ncat %s/reply.txt\n" % (" ".join(vargs), prefix, d))
                os.chmod(path, 0o755)
                env = {"PATH": d + ":/usr/bin:/bin"}
                for cmd in [["--color-picker", name, "pick"], ["format", "hex", "pick"]]:
                    inp = "picker %s reply %s %r: %r" % (name, label, reply, cmd)
                    res.case(inp)
                    try:
                        rc, out, err = run_cli(cmd, env=env, timeout=10)
                    except subprocess.TimeoutExpired:
                        res.fail("terminates", "cli:colorpicker", inp, "no exit within 10 s")
                        continue
                    generic_oracle(res, cmd + ["<picker %s:%s>" % (name, label)], rc, out, err, allow_partial_line=True)
                    # (replies whose numbers Rust parses as NaN/inf may be accepted or rejected: only the exit-status rule applies)
                    # whenever the reply is not accepted, the error names the reply itself (its first line), not
                    # a string made from it
                    if rc == 1 and reply.strip():
                        cls, msg = classify_stderr(err)
                        res.check(cls == "color-parse" and msg is not None and reply.strip().split("\n")[0] in msg, "picker-error-names-the-reply", "cli:colorpicker", inp, repr(msg))
                    res.check(want_rc is None or rc == want_rc, "picker-reply-handled", "cli:colorpicker", inp, "rc=%s stderr=%r" % (rc, err[-160:]))
    finally:
        shutil.rmtree(d, ignore_errors=True)


# ------------------------------------------------------------------------------------------ C09 / C10 (CLI glue)

def wire_floats(info):
    import struct
    return [struct.unpack(">d", bytes.fromhex(h))[0] for h in info.wire.split(" ")]


def rgb_of(info):
    return ((info.packed >> 16) & 255, (info.packed >> 8) & 255, info.packed & 255)


def wcag_luminance(r, g, b):
    def lin(c):
        c = c / 255.0
        return c / 12.92 if c <= 0.04045 else ((c + 0.055) / 1.055) ** 2.4
    return 0.2126 * lin(r) + 0.7152 * lin(g) + 0.0722 * lin(b)


def near_breakeven_texts(rnd, n):
    """Colours whose luminance is within 0.004 of the value where black and white text contrast equally
    (sqrt(1.05 * 0.05) - 0.05 = 0.17913): where a text-colour rule can go wrong."""
    out = []
    while len(out) < n:
        r, g, b = rnd.randrange(256), rnd.randrange(256), rnd.randrange(256)
        # steer one channel so that the luminance lands near the break-even value
        for gg in range(256):
            if abs(wcag_luminance(r, gg, b) - 0.17913) < 0.004:
                out.append("#%02x%02x%02x" % (r, gg, b))
                break
    return out


def near_gray_texts(rnd, n):
    out = []
    for _ in range(n):
        g = rnd.randrange(256)
        d = [0, 0, 0]
        d[rnd.randrange(3)] = rnd.choice([-2, -1, 1, 2])
        out.append("#%02x%02x%02x" % tuple(min(255, max(0, g + x)) for x in d))
    return out


def c09(res, tier, seed, lib):
    """`pastel to-gray` / `pastel textcolor` hand every colour to the library functions: the printed
    gray is achromatic with the input's luminance (within one gray step), grays stay, and the text
    colour is black or white with contrast >= 4.5."""
    modelled_family(res, random.Random(seed + 77), ['gray'], 100 if tier != "thorough" else 1200)   # textcolor, to-gray: relations, judged below
    rnd = random.Random(seed)
    n = 60 if tier != "thorough" else 1200
    texts = near_gray_texts(rnd, n) + [rand_color_text(rnd) for _ in range(n)] + ["#%02x%02x%02x" % (g, g, g) for g in range(0, 256, 5 if tier != "thorough" else 1)]
    texts += ["rgba(128,129,128,0.5)", "hsl(200,1%,50%)", "hsl(10,0.4%,30%)"]
    texts += near_breakeven_texts(rnd, 150 if tier != "thorough" else 3000)
    inf = infos(texts)
    rc, out, err = run_cli(["to-gray"] + texts)
    lines = out.decode().split("\n")[:-1]
    res.check(rc == 0 and len(lines) == len(texts), "exit-0", "cli:to-gray", "batch", "rc=%s %d lines %r" % (rc, len(lines), err[-120:]))
    if len(lines) == len(texts):
        got = infos(lines)
        mo = model_batch(["adj togray %s" % i.wire for i in inf])
        fo = model_batch([("fmt hsl nosp " + " ".join(m.split(" ")[1:5])) if m.startswith("ok ") else "bad" for m in mo])
        for t, i, ln, g, f_ in zip(texts, inf, lines, got, fo):
            inp = "to-gray %s" % t
            res.case(inp)
            res.model_op()
            want = unhex(f_.split(" ")[1]).decode() if f_.startswith("ok ") else "?"
            if want != ln:
                # to_gray is described by a relation (achromatic, luminance within one gray step, idempotent, grays
                # fixed): an implementation may choose another such gray than the model; the oracles below decide
                res.tag("relational-op:to-gray-differs-from-model")
            if not (g.ok and i.ok):
                res.fail("output-parses", "cli:to-gray", inp, ln)
                continue
            r, gg, b = rgb_of(g)
            res.check(r == gg == b, "to-gray-is-achromatic", "cli:to-gray", inp, "printed %s = rgb(%d,%d,%d)" % (ln, r, gg, b))
            # luminance keys are 1000*luminance truncated; one gray step changes luminance by < 0.012
            res.check(abs(g.keys["luminance"] - i.keys["luminance"]) <= 14, "to-gray-keeps-luminance", "cli:to-gray", inp,
                      "luminance %d/1000 -> %d/1000" % (i.keys["luminance"], g.keys["luminance"]))
            ri, gi, bi = rgb_of(i)
            if ri == gi == bi and wire_floats(i)[1] == 0.0:
                res.check((r, gg, b) == (ri, gi, bi), "to-gray-leaves-grays", "cli:to-gray", inp, "%s -> %s" % ((ri, gi, bi), (r, gg, b)))
    rc, out, err = run_cli(["textcolor"] + texts)
    lines = out.decode().split("\n")[:-1]
    res.check(rc == 0 and len(lines) == len(texts), "exit-0", "cli:textcolor", "batch", "rc=%s %d lines" % (rc, len(lines)))
    if len(lines) == len(texts):
        for t, i, ln in zip(texts, inf, lines):
            inp = "textcolor %s" % t
            res.case(inp)
            res.check(ln in ("hsl(0,0.0%,0.0%)", "hsl(0,0.0%,100.0%)"), "textcolor-black-or-white", "cli:textcolor", inp, ln)
            if i.ok:
                lum = i.keys["luminance"] / 1000.0
                ratio = (lum + 0.05) / 0.05 if ln == "hsl(0,0.0%,0.0%)" else 1.05 / (lum + 0.001 + 0.05)
                res.check(ratio >= 4.5, "textcolor-contrast-4.5", "cli:textcolor", inp, "luminance %.3f, text %s, contrast about %.2f" % (lum, ln, ratio))
                # the same two clauses with the luminance computed here from the 8-bit channels (WCAG formula written
                # out): at least 4.5:1, and at most 0.01 below the other choice
                L = wcag_luminance(*rgb_of(i))
                cb, cw = (L + 0.05) / 0.05, 1.05 / (L + 0.05)
                chosen, other = (cb, cw) if ln == "hsl(0,0.0%,0.0%)" else (cw, cb)
                res.check(chosen >= 4.5, "textcolor-contrast-4.5", "cli:textcolor", inp, "luminance %.6f, text %s, contrast %.4f" % (L, ln, chosen))
                res.check(other - chosen <= 0.01 + 1e-9, "textcolor-at-most-0.01-below-the-other-choice", "cli:textcolor", inp,
                          "luminance %.6f, text %s has contrast %.4f, the other choice %.4f" % (L, ln, chosen, other))


def c10(res, tier, seed, lib):
    """Alpha through the CLI: every unary transformation and every `set` of a non-alpha property
    prints the input's alpha; alpha is printed exactly when it differs from 1."""
    modelled_family(res, random.Random(seed + 77), ['lighten', 'darken', 'saturate', 'desaturate', 'rotate', 'complement', 'colorblind', 'set', 'mix', 'color'], 200 if tier != "thorough" else 3000)
    rnd = random.Random(seed)
    n = 8 if tier != "thorough" else 80
    texts = []
    for _ in range(n):
        a = rnd.choice([0.5, 0.25, 0.004, 0.996, round(rnd.uniform(0.01, 0.99), 3)])
        texts.append(rnd.choice(["rgba(%d,%d,%d,%s)" % (rnd.randrange(256), rnd.randrange(256), rnd.randrange(256), a),
                                 "hsla(%d,%d%%,%d%%,%s)" % (rnd.randrange(360), rnd.randrange(5, 100), rnd.randrange(5, 95), a)]))
    texts += ["rgba(128,128,128,0.5)", "rgba(0,0,0,0.3)", "#ff000080"]
    inf = infos(texts)
    cmds = [["lighten", "0.1"], ["darken", "0.15"], ["saturate", "0.2"], ["desaturate", "0.1"], ["rotate", "40"], ["complement"],
            ["to-gray"], ["colorblind", "prot"], ["colorblind", "deuter"], ["colorblind", "trit"]]
    for p in SET_PROPS:
        if p == "alpha":
            continue
        v = {"red": "10", "green": "200", "blue": "99", "hsl-hue": "123", "hue": "77", "lightness": "60", "chroma": "30",
             "lab-a": "-20", "lab-b": "-30", "oklab-l": "0.6", "oklab-a": "0.1", "oklab-b": "0.05", "hsl-saturation": "0.4",
             "hsl-lightness": "0.6"}.get(p, "0.5")
        cmds.append(["set", p, v])
    for cmd in cmds:
        rc, out, err = run_cli(cmd + texts)
        lines = out.decode().split("\n")[:-1]
        res.check(rc == 0 and len(lines) == len(texts), "exit-0", "cli:" + cmd[0], " ".join(cmd), "rc=%s %d lines %r" % (rc, len(lines), err[-120:]))
        if len(lines) != len(texts):
            continue
        got = infos(lines)
        for t, i, ln, g in zip(texts, inf, lines, got):
            inp = "%s %s" % (" ".join(cmd), t)
            res.case(inp)
            if not (g.ok and i.ok):
                res.fail("output-parses", "cli:" + cmd[0], inp, ln)
                continue
            a_in, a_out = wire_floats(i)[3], wire_floats(g)[3]
            # printed with at most three decimals
            res.check(abs(a_in - a_out) <= 0.00051, "alpha-carried-unchanged", "cli:" + cmd[0], inp, "alpha %r -> printed %s (alpha %r)" % (a_in, ln, a_out))
    # alpha is printed exactly when it differs from 1
    for fmt in ["hex", "rgb", "hsl", "hsv", "lab", "lch", "oklab", "rgb-float"]:
        for t, has in [("rgba(10,20,30,1.0)", False), ("rgba(10,20,30,0.5)", True), ("#0a141e", False), ("#0a141eff", False), ("#0a141e80", True)]:
            rc, out, err = run_cli(["format", fmt, t])
            ln = out.decode().strip()
            inp = "format %s %s" % (fmt, t)
            res.case(inp)
            if fmt == "hex":
                shown = len(ln) == 9
            else:
                shown = ln.count(",") == 3
            res.check(rc == 0 and shown == has, "alpha-printed-iff-not-1", "cli:format", inp, "printed %r" % ln)


# ------------------------------------------------------------------------------------------ C01 / C05 / C07 (CLI glue)

def c01(res, tier, seed, lib):
    """The CLI hands every colour string to the parser unchanged: accepted strings print the colour
    the library reads, rejected ones give exit 1 and `Could not parse color '<text>'`."""
    modelled_family(res, random.Random(seed + 77), ['color', 'format'], 100 if tier != "thorough" else 1500, format_types=["hex", "rgb", "hsl"])  # C01 is about what is read, not how it is printed
    n = 260 if tier != "thorough" else 4000
    ans = harness_query(["c01gen %d %d" % (n, seed)])[0]
    strs = [unhex(x) for x in ans.split(" ")[1].split(",")] if ans.startswith("ok ") else []
    res.check(len(strs) > 50, "generator-produced-strings", "pv-harness c01gen", "c01gen", ans[:80])
    texts = []
    for b in strs:
        try:
            t = b.decode("utf-8")
        except UnicodeDecodeError:
            continue
        if "\n" in t or "\r" in t or "\x00" in t or t.startswith("-") or t.strip() in ("pick", "-") or t == "":
            continue
        texts.append(t)
    inf = infos(texts)
    n_acc = n_rej = 0
    for t, i in zip(texts, inf):
        rc, out, err = run_cli(["format", "hex", t])
        inp = "format hex %r" % t
        res.case(inp)
        generic_oracle(res, ["format", "hex", t], rc, out, err)
        if i.ok:
            n_acc += 1
            rgb = rgb_of(i)
            a = wire_floats(i)[3]
            want = "#%02x%02x%02x" % rgb + ("" if a == 1.0 else "%02x" % int(a * 255 + 0.5))
            res.check(rc == 0 and out.decode().strip() == want, "cli-accepts-what-the-grammar-accepts", "cli:color argument", inp,
                      "rc=%s printed %r, the library reads %s" % (rc, out[:40], want))
        else:
            n_rej += 1
            cls, msg = classify_stderr(err)
            res.check(rc == 1 and cls == "color-parse" and out == b"", "cli-reports-could-not-parse-color", "cli:color argument", inp,
                      "rc=%s class=%s out=%r" % (rc, cls, out[:40]))
            res.check(msg is not None and ("'%s'" % t) in msg, "error-names-the-text", "cli:color argument", inp, repr(msg))
    res.tag("cli:accepted", n_acc); res.tag("cli:rejected", n_rej)
    # the same strings one per line on stdin (also the empty and the blank line): a rejected line is
    # reported, not skipped and not taken for the end of input
    rej = [t for t, i in zip(texts, inf) if not i.ok and t == t.strip() and "\t" not in t][:40 if tier != "thorough" else 400]
    for t in ["", " ", "\t", "  \t "] + rej:
        data = ("red\n" + t + "\nblue\n").encode()
        rc, out, err = run_cli(["format", "hex"], stdin=data)
        inp = "format hex < %r" % data
        res.case(inp)
        cls, msg = classify_stderr(err)
        res.check(rc == 1 and out == b"#ff0000\n" and cls == "color-parse", "stdin-line-rejected-like-argument", "cli:stdin", inp,
                  "rc=%s out=%r class=%s" % (rc, out[:60], cls))
    for t in [x for x, i in zip(texts, inf) if i.ok][:30 if tier != "thorough" else 300]:
        data = ("  " + t + " \n").encode()
        rc, out, err = run_cli(["format", "hex"], stdin=data)
        rc2, out2, _ = run_cli(["format", "hex", t])
        res.case("format hex < %r" % data)
        res.check(rc == rc2 == 0 and out == out2, "stdin-line-accepted-like-argument", "cli:stdin", repr(data), "%r vs %r" % (out[:40], out2[:40]))


def c05(res, tier, seed, lib):
    """Extreme numeric arguments on the command line: exit 0/1/2, never a panic, and whatever is
    printed is a colour the parser reads back (hence valid)."""
    modelled_family(res, random.Random(seed + 77), ['lighten', 'darken', 'saturate', 'desaturate', 'rotate', 'set', 'mix'], 150 if tier != "thorough" else 2000)
    rnd = random.Random(seed)
    amounts = ["1e308", "1e400", "nan", "NaN", "inf", "infinity", "1e-320", "99999999999999999999", "0", "1", "0.5", "360", "720", "1e15"]
    colors = ["red", "black", "white", "gray", "rgba(10,20,30,0.5)", "hsl(359.9999,100%,50%)", "lab(100,127,-128)", "lch(50,200,720)"]
    cases = []
    for sub in ["lighten", "darken", "saturate", "desaturate", "rotate"]:
        for a in amounts:
            cases.append([sub, a])
    for p in SET_PROPS:
        for a in (amounts if tier == "thorough" else rnd.sample(amounts, 4)):
            cases.append(["set", p, a])
    for a in amounts:
        for sp in (["rgb", "hsl", "lab", "lch", "oklab"] if tier == "thorough" else [rnd.choice(["rgb", "hsl", "lab", "lch", "oklab"])]):
            cases.append(["mix", "-f", a, "-s", sp, "blue"])
    for c in cases:
        argv = c + colors
        rc, out, err = run_cli(argv)
        inp = " ".join(c)
        res.case(inp)
        generic_oracle(res, argv, rc, out, err)
        lines = out.decode("utf-8", "replace").split("\n")[:-1]
        if rc == 0:
            res.check(len(lines) == len(colors), "one-line-per-colour", "cli:" + c[0], inp, "%d lines" % len(lines))
        for ln, g in zip(lines, infos(lines)):
            res.check(g.ok, "printed-colour-is-valid", "cli:" + c[0], inp, "printed %r does not parse" % ln)
            if g.ok:
                h = wire_floats(g)
                res.check(0 <= h[0] <= 360 and all(0 <= x <= 1 for x in h[1:]), "printed-colour-is-valid", "cli:" + c[0], inp, "printed %r = %r" % (ln, h))


def c07(res, tier, seed, lib):
    """`mix --fraction F base colour` weights the base by F: F=1 prints the base, F=0 the colour
    (8-bit operands: exactly), and every line equals the model's mix at fraction 1-F."""
    modelled_family(res, random.Random(seed + 77), ['mix'], 150 if tier != "thorough" else 2000)
    rnd = random.Random(seed)
    n = 40 if tier != "thorough" else 600
    ops, meta = [], []
    for k in range(n):
        base = "#%02x%02x%02x" % (rnd.randrange(256), rnd.randrange(256), rnd.randrange(256))
        cols = ["#%02x%02x%02x" % (rnd.randrange(256), rnd.randrange(256), rnd.randrange(256)) for _ in range(rnd.randrange(1, 4))]
        if k % 5 == 0:
            cols[0] = "rgba(%d,%d,%d,0.%d)" % (rnd.randrange(256), rnd.randrange(256), rnd.randrange(256), rnd.randrange(1, 10))
        sp = rnd.choice(["rgb", "hsl", "lab", "lch", "oklab", "RGB", "Lab", "OkLab", "Rgb", "rGB", "LCH", "Lch", "Hsl", "HSL", "OKLAB", "Oklab", "LAB", "LCh", "oKLab"])
        f = rnd.choice(["0", "1", "0.5", "0.25", "%.3f" % rnd.random(), "2", "1e-9"])
        argv = ["mix", "-f", f, "-s", sp, base] + cols
        rc, out, err = run_cli(argv)
        inp = " ".join(argv)
        res.case(inp)
        lines = out.decode().split("\n")[:-1]
        res.check(rc == 0 and len(lines) == len(cols), "exit-0", "cli:mix", inp, "rc=%s %d lines %r" % (rc, len(lines), err[-100:]))
        binf, cinf = infos([base])[0], infos(cols)
        eight = all(not c.startswith("rgba") for c in cols)
        if rc == 0 and float(f) >= 1:
            res.check(all(l == binf.hsl for l in lines) if eight else True, "fraction-1-gives-base", "cli:mix", inp, "%s vs base %s" % (lines, binf.hsl))
        if rc == 0 and float(f) == 0:
            res.check(lines == [c.hsl for c in cinf], "fraction-0-gives-colour", "cli:mix", inp, "%s vs %s" % (lines, [c.hsl for c in cinf]))
        if rc == 0 and sp != sp.lower():
            rcl, outl, _ = run_cli(["mix", "-f", f, "-s", sp.lower(), base] + cols)
            res.check(out == outl, "colorspace-name-any-case", "cli:mix", inp, "%r, with -s %s: %r" % (out[:80], sp.lower(), outl[:80]))
        op = "cli mix 3 %s %s %s %d %s 0" % (hexs(base), hexs(f), hexs(sp), len(cols), " ".join(hexs(c) for c in cols))
        ops.append(op); meta.append((inp, "ok %d %s - -" % (rc, hexs(out))))
    for (inp, impl), mo in zip(meta, model_batch(ops)):
        res.model_op()
        if mo != impl:
            res.disagree(inp, impl[:300], mo[:300])
    # the base given as '-' is one colour read once from stdin, like the same colour as an argument
    for sp in ["rgb", "lab", "hsl"]:
        ra = run_cli(["mix", "-s", sp, "red", "blue", "green", "#123456"])
        rd = run_cli(["mix", "-s", sp, "-", "blue", "green", "#123456"], stdin=b"red\n")
        rd2 = run_cli(["mix", "-s", sp, "-", "blue", "green", "#123456"], stdin=b"red\nwhite\nblack\n")
        res.case("mix -s %s - blue green #123456 < red" % sp)
        res.check(ra[0] == rd[0] == rd2[0] == 0 and ra[1] == rd[1] == rd2[1], "mix-base-from-stdin-read-once", "cli:mix", "mix -s %s - blue green #123456" % sp,
                  "args: rc=%s %r; '-' with one line: rc=%s %r; with three lines: %r" % (ra[0], ra[1][:80], rd[0], rd[1][:80], rd2[1][:80]))
    # the base is the first positional argument: given as '-' it is the FIRST line of stdin, also when colours
    # are '-' too or come from stdin; an unparsable base is reported even when there is nothing to mix
    for argv_args, argv_dash, data in [
            (["mix", "-f", "0.9", "red", "blue"], ["mix", "-f", "0.9", "-", "-"], b"red\nblue\n"),
            (["mix", "red", "blue", "green"], ["mix", "-"], b"red\nblue\ngreen\n"),
            (["mix", "-s", "hsl", "red", "blue", "green"], ["mix", "-s", "hsl", "-", "-", "green"], b"red\nblue\n"),
            (["mix", "-s", "rgb", "#102030", "white", "black"], ["mix", "-s", "rgb", "-", "white", "-"], b"#102030\nblack\n")]:
        ra = run_cli(argv_args)
        rd = run_cli(argv_dash, stdin=data)
        res.case(" ".join(argv_dash) + " < " + repr(data))
        res.check(ra[0] == rd[0] == 0 and ra[1] == rd[1], "mix-base-is-the-first-stdin-line", "cli:mix", " ".join(argv_dash) + " < " + repr(data),
                  "arguments: rc=%s %r; with '-': rc=%s %r" % (ra[0], ra[1][:80], rd[0], rd[1][:80]))
    rb = run_cli(["mix", "bogus"], stdin=b"")
    res.case("mix bogus < /dev/null")
    res.check(rb[0] == 1 and b"'bogus'" in rb[2], "mix-unparsable-base-is-reported", "cli:mix", "mix bogus < /dev/null", "rc=%s stderr=%r" % (rb[0], strip_sgr(rb[2])[:120]))
    # the default fraction is 0.5 and the default space Lab
    rc1, out1, _ = run_cli(["mix", "red", "blue"])
    rc2, out2, _ = run_cli(["mix", "-f", "0.5", "-s", "Lab", "red", "blue"])
    res.case("mix defaults")
    res.check(rc1 == 0 and out1 == out2, "mix-defaults", "cli:mix", "mix red blue", "%r vs %r" % (out1, out2))


# ------------------------------------------------------------------------------------------ C04 (CLI glue)

FORMAT_TYPES = ["rgb", "rgb-float", "hex", "hsl", "hsl-hue", "hsl-saturation", "hsl-lightness", "hsv", "hsv-hue", "hsv-saturation",
                "hsv-value", "lch", "lch-lightness", "lch-chroma", "lch-hue", "lab", "lab-a", "lab-b", "oklab", "oklab-l", "oklab-a",
                "oklab-b", "luminance", "brightness", "ansi-8bit", "ansi-24bit", "cmyk", "name"]


def c04(res, tier, seed, lib):
    """`pastel format <type>` prints, for each type, the coordinate of that name as the reference
    evaluation (the Lean model) computes it, in the documented precision."""
    # the format types that print a coordinate of one of C04's spaces (ansi-* and name belong to C12, C13, C18:
    # a change there is not a disagreement with the published definitions)
    coord_types = [t for t in FORMAT_TYPES if not t.startswith("ansi-") and t != "name"]
    modelled_family(res, random.Random(seed + 77), ['format'], 150 if tier != "thorough" else 2000, format_types=coord_types)
    rnd = random.Random(seed)
    cols = ["#%02x%02x%02x" % (rnd.randrange(256), rnd.randrange(256), rnd.randrange(256)) for _ in range(6 if tier != "thorough" else 80)]
    cols += ["black", "white", "#0b0b0b", "rgba(200,100,50,0.5)", "hsl(300,40%,60%)", "rebeccapurple"]
    ops, meta = [], []
    for t in coord_types:
        argv = ["format", t] + cols
        rc, out, err = run_cli(argv)
        inp = " ".join(argv)
        res.case(inp)
        res.check(rc == 0 and out.count(b"\n") == len(cols), "exit-0", "cli:format", inp, "rc=%s %r" % (rc, err[-100:]))
        ops.append("cli format 1 %s %d %s 0" % (hexs(t), len(cols), " ".join(hexs(c) for c in cols)))
        meta.append((inp, "ok %d %s - -" % (rc, hexs(out))))
    case_oracle(res, "cli:format", lambda t: ["format", t, "#4080c0", "rgba(1,2,3,0.5)"], FORMAT_TYPES if tier == "thorough" else FORMAT_TYPES[::3])
    for (inp, impl), mo in zip(meta, model_batch(ops)):
        res.model_op()
        if mo != impl:
            def show(x):
                t = x.split(" ")
                try:
                    return "rc=%s stdout=%r" % (t[1], unhex(t[2])[:400])
                except Exception:
                    return x[:300]
            res.disagree(inp, show(impl), show(mo))


# ------------------------------------------------------------------------------------------ C15 (CLI)

def c15(res, tier, seed, lib):
    """`pastel distinct --print-minimal-distance` reports the library's minimum over the eligible
    entries (a colour that is free or whose neighbour is free), never the distance of two fixed
    colours.  Deterministic part: with every colour fixed nothing is eligible and the sentinel is
    printed.  With one free colour next to two fixed colours 0.57 apart, the reported value is the
    free colour's distance to the nearer of them; the annealer keeps that far above 0.57."""
    for argv in [["distinct", "2", "ff0000", "fe0101", "--print-minimal-distance"], ["distinct", "-m", "CIE76", "2", "808080", "818181", "--print-minimal-distance"],
                 ["distinct", "3", "red", "blue", "teal", "--print-minimal-distance"]]:
        rc, out, err = run_cli(argv, timeout=60)
        res.case(" ".join(argv))
        txt = out.decode().strip()
        res.check(rc == 0 and txt.startswith("17976931348623157") and len(txt) > 300, "minimal-distance-ignores-fixed-pairs", "cli:distinct", " ".join(argv), txt[:40])
    for argv, pair in [(["distinct", "3", "ff0000", "fe0101", "--print-minimal-distance"], 0.568), (["distinct", "-m", "CIE76", "4", "808080", "818181", "--print-minimal-distance"], 0.5)]:
        rc, out, err = run_cli(argv, timeout=120)
        res.case(" ".join(argv))
        try:
            v = float(out.decode().strip())
        except ValueError:
            v = None
        # (the free colours end up tens of units away from the fixed pair; 5 x the pair distance is a very wide margin)
        res.check(rc == 0 and v is not None and v > 5 * pair, "minimal-distance-ignores-fixed-pairs", "cli:distinct", " ".join(argv), "printed %r; the two fixed colours are %.3f apart" % (out[:30], pair))


# ------------------------------------------------------------------------------------------ C20

def c20(res, tier, seed, lib):
    """`pastel colorblind <type> C`: the subcommand hands each type to the simulation of that type.
    The printed line (hsl, one decimal) is compared with the model's simulation of the same type,
    printed by the model's formatter (exact text), and - as a direct oracle - its 8-bit channels lie
    within 4 steps (print rounding) of the reference evaluation for that type."""
    modelled_family(res, random.Random(seed + 77), ['colorblind'], 100 if tier != "thorough" else 1500)
    rnd = random.Random(seed)
    colors = ["ff0000", "00ff00", "0000ff", "ffff00", "ff00ff", "00ffff", "ff8000", "8000ff", "black", "white", "gray",
              "rgba(200,30,90,0.4)", "hsl(123,45%,67%)", "rebeccapurple"]
    colors += ["#%02x%02x%02x" % (rnd.randrange(256), rnd.randrange(256), rnd.randrange(256)) for _ in range(40 if tier != "thorough" else 600)]
    inf = infos(colors)
    for t in ("prot", "deuter", "trit"):
        rc, out, err = run_cli(["colorblind", t] + colors)
        lines = out.decode().split("\n")[:-1]
        res.check(rc == 0 and len(lines) == len(colors), "exit-0", "cli:colorblind", t, "rc=%s %d lines %r" % (rc, len(lines), err[-120:]))
        if len(lines) != len(colors):
            continue
        mo = model_batch(["adj cb:%s %s" % (t, i.wire) for i in inf])
        fo = model_batch([("fmt hsl nosp " + " ".join(m.split(" ")[1:5])) if m.startswith("ok ") else "bad" for m in mo])
        got = infos(lines)
        for c, ln, m, f_, g in zip(colors, lines, mo, fo, got):
            inp = "colorblind %s %s" % (t, c)
            res.case(inp)
            res.model_op()
            want = unhex(f_.split(" ")[1]).decode() if f_.startswith("ok ") else "?"
            if want != ln:
                res.disagree(inp, ln, want)
            if m.startswith("ok ") and g.ok:
                ref = [int(x) for x in m.split(" ")[5:8]]
                have = [(g.packed >> 16) & 255, (g.packed >> 8) & 255, g.packed & 255]
                res.check(max(abs(a - b) for a, b in zip(ref, have)) <= 4, "cli-type-reaches-its-simulation", "cli:colorblind", inp,
                          "printed %s = rgb%s, reference projection for %s gives rgb%s" % (ln, tuple(have), t, tuple(ref)))
    case_oracle(res, "cli:colorblind", lambda t: ["colorblind", t, "#4080c0", "orange"], ["prot", "deuter", "trit"])
    for argv, want in [(["colorblind", "xyz", "red"], 2), (["colorblind"], 2), (["colorblind", "prot", "nocolor"], 1)]:
        rc, out, err = run_cli(argv)
        res.case(repr(argv))
        res.check(rc == want, "argument-validation", "cli:colorblind", repr(argv), "rc=%s" % rc)


# ------------------------------------------------------------------------------------------ C08

def c08(res, tier, seed, lib):
    # `gradient` against the Lean CLI model: count and colour-count validation, colours as arguments or '-',
    # error order, N lines
    modelled_family(res, random.Random(seed + 77), ['gradient'], 150 if tier != "thorough" else 2000)
    rnd = random.Random(seed)
    spaces = ["rgb", "hsl", "lab", "lch", "oklab"]
    spell = {"rgb": ["rgb", "RGB", "Rgb", "rGb"], "hsl": ["hsl", "HSL", "Hsl"], "lab": ["lab", "Lab", "LAB"], "lch": ["lch", "LCh", "LCH", "Lch"],
             "oklab": ["oklab", "OkLab", "OKLAB", "Oklab", "OKLab"]}
    combos = [(n, k, sp) for n in range(2, 13) for k in range(2, 6) for sp in spaces]
    if tier != "thorough":
        combos = [c for i, c in enumerate(combos) if i % 3 == seed % 3]
    ops, meta, refq = [], [], []
    for ci, (n, k, sp) in enumerate(combos):
        texts = [rand_color_text(rnd) for _ in range(k)]
        if ci % 4 == 0:
            # stops that lie closer together than one 8-bit step (or coincide as 8-bit colours) but print
            # differently: every line is still the sample at its own position
            hh, ss, ll = rnd.randrange(360), rnd.uniform(0, 100), rnd.uniform(1, 98)
            g = rnd.randrange(1, 255)
            texts = rnd.choice([["#%02x%02x%02x" % (g, g, g), "#%02x%02x%02x" % (g + 1, g + 1, g + 1)],
                                ["hsl(%d,%.1f%%,%.1f%%)" % (hh, ss, ll), "hsl(%d,%.1f%%,%.1f%%)" % (hh, ss, ll + 0.1)],
                                ["hsl(%d,%.1f%%,%.1f%%)" % (hh, ss, ll), "hsl(%d,%.1f%%,%.1f%%)" % (hh, ss, ll + 0.3), "hsl(%d,%.1f%%,%.1f%%)" % (hh, ss, ll)]])
            k = len(texts)
        inf = infos(texts)
        spx = rnd.choice(spell[sp])      # any letter case of the name selects the same space
        rc, out, err = run_cli(["gradient", "-n", str(n), "-s", spx] + texts)
        inp = "gradient -n %d -s %s %s" % (n, spx, texts)
        res.case(inp, True)
        lines = out.decode().split("\n")
        if lines and lines[-1] == "":
            lines.pop()
        res.check(rc == 0 and len(lines) == n, "gradient-prints-exactly-N", "cli:gradient", inp, "rc=%s %d lines" % (rc, len(lines)))
        if lines:    # (any colour: since f892f2c a sample exactly on a stop is the stop itself)
            res.check(lines[0] == inf[0].hsl and lines[-1] == inf[-1].hsl, "gradient-endpoints-are-c1-ck", "cli:gradient", inp, "%s .. %s vs %s .. %s" % (lines[0], lines[-1], inf[0].hsl, inf[-1].hsl))
        ops.append("gradient %s %d %d %s" % (sp, n, k, " ".join(i.wire for i in inf)))
        meta.append((inp, out))
        refq.append(("grad %s %d %s" % (sp, n, " ".join(hexs(t) for t in texts)), inp, lines))
    # any number of colour arguments (the stop positions i/(k-1) are computed for every k): N lines, c1 first, ck last
    palette = [rand_color_text(rnd) for _ in range(160)]
    pinf = infos(palette)
    for k in (range(2, 131) if tier != "thorough" else range(2, 161)):
        n = rnd.choice([2, 3, 5])
        rc, out, err = run_cli(["gradient", "-n", str(n), "-s", rnd.choice(["rgb", "lab", "hsl"])] + palette[:k])
        lines = out.decode().split("\n")[:-1]
        inp = "gradient -n %d with %d colour arguments" % (n, k)
        res.case(inp)
        res.check(rc == 0 and len(lines) == n and lines[0] == pinf[0].hsl and lines[-1] == pinf[k - 1].hsl, "gradient-any-number-of-stops", "cli:gradient", inp,
                  "rc=%s, %d lines, first %s last %s (expected %s .. %s), stderr=%r" % (rc, len(lines), lines[:1], lines[-1:], pinf[0].hsl, pinf[k - 1].hsl, strip_sgr(err)[:120]))
    # the gradient the property describes, built through the library's ColorScale
    # (stops at i/(k-1), samples at j/(N-1)); the command must print exactly these lines
    for (q, inp, lines), ref in zip(refq, harness_query([q for (q, _, _) in refq])):
        if ref.startswith("ok "):
            want_lines = [unhex(x).decode() if x != "-" else "<none>" for x in ref.split(" ")[1].split(",")]
            res.check(lines == want_lines, "gradient-lines-are-scale-samples", "cli:gradient", inp,
                      "printed %s, the evenly spaced scale sampled at j/(N-1) gives %s" % (lines[:6], want_lines[:6]))
        else:
            res.fail("gradient-reference", "cli:gradient", inp, ref[:100])
    for (inp, out), mo in zip(meta, model_batch(ops)):
        res.model_op()
        want = unhex(mo.split(" ")[1]) if mo.startswith("ok ") else b"?"
        if want != out:
            res.disagree(inp, repr(out[:300]), repr(want[:300]))
    # defaults: 10 colours, Lab
    rc1, out1, _ = run_cli(["gradient", "red", "blue", "#123456"])
    rc2, out2, _ = run_cli(["gradient", "-n", "10", "-s", "Lab", "red", "blue", "#123456"])
    res.case("gradient defaults")
    res.check(rc1 == 0 and out1 == out2 and out1.count(b"\n") == 10, "gradient-defaults", "cli:gradient", "gradient red blue #123456", "%r vs %r" % (out1[:80], out2[:80]))
    # argument validation
    for argv, want in [(["gradient", "-n", "1", "red", "blue"], 1), (["gradient", "-n", "0", "red", "blue"], 1),
                       (["gradient", "red"], 1), (["gradient", "-n", "x", "red", "blue"], 1), (["gradient"], 2),
                       (["gradient", "-s", "no-such-space", "red", "blue"], 2)]:   # (a space pastel may one day accept, like hsv, is not demanded to fail)
        rc, out, err = run_cli(argv)
        res.case(repr(argv))
        res.check(rc == want and out == b"", "gradient-validation", "cli:gradient", repr(argv), "rc=%s out=%r" % (rc, out[:60]))


# ------------------------------------------------------------------------------------------ C02

def c02(res, tier, seed, lib):
    """Pipes compose: the non-interactive output of any colour-producing command can be fed to
    another pastel command without a parse error and without moving a channel by more than 3."""
    modelled_family(res, random.Random(seed + 77), ['color', 'format'], 100 if tier != "thorough" else 1500)
    rnd = random.Random(seed)
    n = 1500 if tier == "thorough" else 160
    producers = [lambda t: ["color", t], lambda t: ["lighten", "0.1", t], lambda t: ["darken", "0.05", t],
                 lambda t: ["saturate", "0.2", t], lambda t: ["desaturate", "0.1", t], lambda t: ["rotate", "33", t],
                 lambda t: ["complement", t], lambda t: ["mix", "-f", "0.3", "red", t], lambda t: ["to-gray", t],
                 lambda t: ["textcolor", t], lambda t: ["colorblind", "deuter", t], lambda t: ["set", "hsl-hue", "77", t],
                 lambda t: ["gradient", "-n", "3", t, "black"], lambda t: ["sort-by", "hue", t, "white"]]
    for i in range(n):
        t = rand_color_text(rnd)
        cmd = producers[i % len(producers)](t)
        rc1, out1, err1 = run_cli(cmd)
        res.case("pipe " + repr(cmd))
        if rc1 != 0:
            res.fail("producer-exit-0", "cli:" + cmd[0], repr(cmd), "rc=%s %r" % (rc1, err1[-100:]))
            continue
        rc2, out2, err2 = run_cli(["format", "rgb"], stdin=out1)
        res.check(rc2 == 0, "piped-output-parses", "cli:" + cmd[0], repr(cmd), "stdout %r -> rc=%s %r" % (out1[:80], rc2, err2[-100:]))
        # channels moved by at most 3: compare with the library's reading of each printed line
        lines = out1.decode().split("\n")[:-1]
        inf = infos(lines)
        got = out2.decode().split("\n")[:-1]
        for l, i2, g in zip(lines, inf, got):
            m = re.match(r"rgba?\((\d+), (\d+), (\d+)", g)
            if i2.ok and m:
                want = ((i2.packed >> 16) & 255, (i2.packed >> 8) & 255, i2.packed & 255)
                have = tuple(int(x) for x in m.groups())
                res.check(have == want, "pipe-is-parse-of-printed-line", "cli:format", l, "%s vs %s" % (have, want))


# ------------------------------------------------------------------------------------------ C06

def c06(res, tier, seed, lib):
    """`pastel set P V C | pastel format P` reads back V (for properties printed by `format`),
    and the output equals the model's `set`."""
    modelled_family(res, random.Random(seed + 77), ['lighten', 'darken', 'saturate', 'desaturate', 'rotate', 'complement', 'set'], 200 if tier != "thorough" else 3000)
    # out-of-range values of any magnitude: far outside the gamut the rebuilt colour is the gamut clip in that
    # direction, so a value of 1e200 gives what 1e100 gives (the property's "all finite values ... out-of-range")
    for prop, big, large, col in [("oklab-l", "-1e103", "-1e102", "white"), ("oklab-l", "-1e200", "-1e100", "black"), ("oklab-a", "1e200", "1e100", "gray"),
                                  ("oklab-b", "-1e200", "-1e100", "gray"), ("chroma", "1e308", "1e100", "blue"), ("chroma", "1e106", "1e100", "white"),
                                  ("lab-a", "1e300", "1e100", "gray"), ("lab-b", "-1e300", "-1e100", "gray"), ("lightness", "1e300", "1e100", "red"),
                                  ("hsl-lightness", "1e300", "1e100", "red"), ("red", "1e300", "1e100", "blue"), ("hue", "3.6e300", "0", "red")]:
        rb = run_cli(["set", prop, big, col])
        rl = run_cli(["set", prop, large, col])
        res.case("set %s %s %s" % (prop, big, col))
        res.check(rb[0] == rl[0] == 0 and rb[1] == rl[1], "set-huge-value-clips-like-a-large-one", "cli:set", "set %s %s %s" % (prop, big, col),
                  "%r, but set %s %s %s gives %r" % (rb[1].strip(), prop, large, col, rl[1].strip()))
    rnd = random.Random(seed)
    readable = {"hsl-hue": (0, 360, 0.5), "hsl-saturation": (0, 1, 1e-4), "hsl-lightness": (0, 1, 1e-4)}
    colors = [rand_color_text(rnd) for _ in range(20 if tier != "thorough" else 120)]
    inf = infos(colors)
    ops, meta = [], []
    for p in SET_PROPS:
        for _ in range(6 if tier != "thorough" else 40):
            ci = rnd.randrange(len(colors))
            if p in ("red", "green", "blue"):
                v = rnd.choice([0, 255, 300, -5, 127.6, rnd.uniform(0, 255)])
            elif p in ("hsl-hue", "hue"):
                v = rnd.uniform(0, 359)
            elif p in ("lightness",):
                v = rnd.uniform(0, 100)
            elif p in ("lab-a", "lab-b", "chroma"):
                v = rnd.uniform(0, 80)
            else:
                v = rnd.choice([0, 1, 0.5, rnd.uniform(0, 1), 1.5])
            vt = repr(float(v))
            rc, out, err = run_cli(["set", p, vt, colors[ci]])
            inp = "set %s %s %s" % (p, vt, colors[ci])
            res.case(inp)
            res.check(rc == 0, "exit-0", "cli:set", inp, "rc=%s %r" % (rc, err[-100:]))
            if p in readable and rc == 0:
                lo, hi, tol = readable[p]
                rc2, out2, _ = run_cli(["format", p], stdin=out)
                try:
                    back = float(out2.decode().strip())
                    want = min(max(v, lo), hi) if p != "hsl-hue" else v % 360
                    # two printing hops (the hsl line of `set`, then the read-out of `format`), each of which may
                    # round to whole degrees / one decimal of a per cent: allow half a unit of the last place per hop
                    tol2 = {"hsl-hue": 1.0001, "hsl-saturation": 0.00101, "hsl-lightness": 0.00101}[p]
                    res.check(abs(back - want) <= tol2 or (p == "hsl-hue" and abs(abs(back - want) - 360) <= tol2), "set-then-format-reads-value", "cli:set", inp, "read back %r, expected %r" % (back, want))
                except ValueError:
                    res.fail("set-then-format-reads-value", "cli:set", inp, repr(out2))
            import struct
            ops.append("set %s %s %s" % (p, struct.pack(">d", float(v)).hex(), inf[ci].wire))
            meta.append((inp, out))
    # "replaces exactly the named coordinate": for alpha and the three HSL coordinates the printed
    # hue / saturation / lightness of the other coordinates are textually those of the input
    # (inputs written as hsl() with one decimal, i.e. not on the 8-bit grid)
    import re
    pat = re.compile(rb"hsla?\(([0-9.]+),([0-9.]+)%,([0-9.]+)%(?:,([0-9.]+))?\)")
    for p, keep in (("alpha", (0, 1, 2)), ("hsl-hue", (1, 2)), ("hsl-saturation", (0, 2)), ("hsl-lightness", (0, 1))):
        for _ in range(5 if tier != "thorough" else 60):
            ctext = "hsl(%d,%.1f%%,%.1f%%)" % (rnd.randrange(360), rnd.uniform(3, 100), rnd.uniform(3, 97))
            v = rnd.uniform(0, 359) if p == "hsl-hue" else round(rnd.uniform(0.01, 0.99), 3)
            rc0, out0, _ = run_cli(["color", ctext])
            rc, out, err = run_cli(["set", p, repr(v), ctext])
            inp = "set %s %r '%s'" % (p, v, ctext)
            res.case(inp)
            m0, m1 = pat.match(out0.strip()), pat.match(out.strip())
            if not (rc == 0 and rc0 == 0 and m0 and m1):
                res.fail("set-output-is-hsl-line", "cli:set", inp, "%r / %r" % (out0[:80], out[:80]))
                continue
            same = all(m0.group(i + 1) == m1.group(i + 1) for i in keep)
            res.check(same, "set-keeps-other-coordinates", "cli:set", inp, "input prints %r, result prints %r" % (out0.strip(), out.strip()))
    # lighten / darken / saturate / desaturate / rotate at the command line: the amount is added as
    # given (no rescaling), the channel clamped, everything else kept
    cols = ["hsl(%d,%.1f%%,%.1f%%)" % (rnd.randrange(360), rnd.uniform(5, 95), rnd.uniform(5, 95)) for _ in range(4 if tier != "thorough" else 40)]
    cols += ["black", "white", "hsla(100,50%,50%,0.5)"]
    cinf = infos(cols)
    for cmd, ch, sign in [("lighten", 2, 1), ("darken", 2, -1), ("saturate", 1, 1), ("desaturate", 1, -1)]:
        for amt in ["0", "0.1", "0.25", "1", "1.5", "2", "50", "100", "1000", "0.999", "1.0001", "-0.1", "-0.5", "-2", "-0"]:
            rc, out, err = run_cli([cmd, amt] + cols)
            lines = out.decode().split("\n")[:-1]
            inp0 = "%s %s" % (cmd, amt)
            res.check(rc == 0 and len(lines) == len(cols), "exit-0", "cli:" + cmd, inp0, "rc=%s %d lines %r" % (rc, len(lines), err[-100:]))
            if len(lines) != len(cols):
                continue
            for ctext, ci, ln, g in zip(cols, cinf, lines, infos(lines)):
                inp = "%s %s %s" % (cmd, amt, ctext)
                res.case(inp)
                if not (g.ok and ci.ok):
                    res.fail("output-parses", "cli:" + cmd, inp, ln)
                    continue
                a, b = wire_floats(ci), wire_floats(g)
                want = min(1.0, max(0.0, a[ch] + sign * float(amt)))
                res.check(abs(b[ch] - want) <= 0.00051, "cli-amount-added-and-clamped", "cli:" + cmd, inp, "printed %s: channel %r, expected %r" % (ln, b[ch], want))
                other = 3 - ch
                res.check(abs(b[other] - a[other]) <= 0.00051 and abs(b[3] - a[3]) <= 0.00051, "cli-other-channels-kept", "cli:" + cmd, inp, "printed %s from %r" % (ln, a))
    for amt in ["0", "30", "180", "360", "720", "400", "0.5", "-90", "-360", "-0.5", "-725"]:
        rc, out, err = run_cli(["rotate", amt] + cols)
        lines = out.decode().split("\n")[:-1]
        if rc != 0 or len(lines) != len(cols):
            res.fail("exit-0", "cli:rotate", "rotate " + amt, "rc=%s" % rc)
            continue
        for ctext, ci, ln, g in zip(cols, cinf, lines, infos(lines)):
            inp = "rotate %s %s" % (amt, ctext)
            res.case(inp)
            if g.ok and ci.ok:
                a, b = wire_floats(ci), wire_floats(g)
                d = abs((b[0] - (a[0] + float(amt))) % 360.0)
                res.check(min(d, 360.0 - d) <= 0.5001, "cli-rotate-adds-mod-360", "cli:rotate", inp, "printed %s: hue %r from %r" % (ln, b[0], a[0]))
                res.check(abs(b[1] - a[1]) <= 0.00051 and abs(b[2] - a[2]) <= 0.00051, "cli-other-channels-kept", "cli:rotate", inp, ln)
    case_oracle(res, "cli:set", lambda t: ["set", t, "0.4", "#4080c0", "rgba(200,100,50,0.5)"], SET_PROPS if tier == "thorough" else SET_PROPS[::2])
    fm = model_batch(ops)
    # the model answers with a wire colour; print it through the model's hsl formatter
    fops = []
    for mo in fm:
        t = mo.split(" ")
        fops.append("fmt hsl nosp " + " ".join(t[1:5]) if t[0] == "ok" else "bad")
    fouts = model_batch(fops)
    for (inp, out), mo in zip(meta, fouts):
        res.model_op()
        want = unhex(mo.split(" ")[1]) + b"\n" if mo.startswith("ok ") else b"?"
        if want != out:
            res.disagree(inp, repr(out[:200]), repr(want[:200]))


# ------------------------------------------------------------------------------------------ C14

def c14(res, tier, seed, lib):
    # `distinct` at the command line against the Lean CLI model: order of the validations, N lines
    modelled_family(res, random.Random(seed + 77), ['distinct'], 40 if tier != "thorough" else 400)
    rnd = random.Random(seed)
    runs = 10 if tier == "thorough" else 3
    preset = [(3, ["red", "red"]), (4, ["teal", "teal", "teal", "navy"]), (3, ["#102030", "#aabbcc", "#102030"])]
    for i in range(runs + len(preset)):
        n = rnd.choice([2, 3, 4])
        kf = rnd.randrange(0, n + 1)
        fixed = ["#%02x%02x%02x" % (rnd.randrange(256), rnd.randrange(256), rnd.randrange(256)) for _ in range(kf)]
        if i >= runs:
            n, fixed = preset[i - runs]   # the same fixed colour more than once
        metric = rnd.choice(["CIE76", "CIEDE2000"])
        rc, out, err = run_cli(["distinct", "-m", metric, str(n)] + fixed, timeout=120)
        inp = "distinct -m %s %d %s" % (metric, n, fixed)
        res.case(inp)
        lines = out.decode().split("\n")[:-1]
        res.check(rc == 0 and len(lines) == n, "distinct-prints-exactly-n", "cli:distinct", inp, "rc=%s %d lines %r" % (rc, len(lines), err[-100:]))
        finf = infos(fixed)
        for f in finf:
            need = sum(1 for g in finf if g.hsl == f.hsl)
            res.check(lines.count(f.hsl) >= need, "distinct-includes-fixed", "cli:distinct", inp, "%s expected %d times in %s" % (f.hsl, need, lines))
        if fixed and lines:
            res.check(lines[0] == finf[0].hsl, "distinct-first-fixed-stays-first", "cli:distinct", inp, lines[0])
    # every combination of the command's options for small counts, every colour fixed (so the run only
    # rearranges): the n colours are delivered whatever is printed beside them (--verbose writes a distance
    # table and progress to stderr, --print-minimal-distance a number to stdout)
    palette = ["#102030", "#aabbcc", "red", "teal", "#fefefe", "hsl(120,40%,30%)", "black", "#0000fe", "gold"]
    for n in range(2, 10):
        for metric in ["CIE76", "CIEDE2000"]:
            for flags in [[], ["-v"], ["--print-minimal-distance"], ["-v", "--print-minimal-distance"]]:
                if tier != "thorough" and n > 5 and flags != ["-v"]:
                    continue
                argv = ["distinct", "-m", metric] + flags + [str(n)] + palette[:n]
                try:
                    rc, out, err = run_cli(argv, timeout=120)
                except subprocess.TimeoutExpired:
                    res.fail("terminates", "cli:distinct", repr(argv), "no exit within 120 s")
                    continue
                res.case(repr(argv))
                generic_oracle(res, argv, rc, out, err)
                lines = out.decode().split("\n")[:-1]
                want = sorted(i.hsl for i in infos(palette[:n]))
                got = sorted(l for l in lines if l.startswith("hsl"))
                if "--print-minimal-distance" in flags:
                    # documented: only the minimal distance is printed (a number on one line), no colours
                    okd = rc == 0 and len(lines) == 1 and re.fullmatch(r"[0-9]+(\.[0-9]+)?", lines[0]) is not None
                    res.check(okd, "distinct-prints-the-distance-only", "cli:distinct", repr(argv), "rc=%s lines=%s stderr=%r" % (rc, [l[:40] for l in lines[:4]], err[-160:]))
                else:
                    res.check(rc == 0 and got == want, "distinct-delivers-n-with-every-option", "cli:distinct", repr(argv), "rc=%s lines=%s stderr=%r" % (rc, lines[:4], err[-160:]))
    # farthest-first order under the metric named on the command line (every colour fixed: the
    # command only rearranges, deterministically)
    sets = [["gray", "white", "blue", "black"], ["#ff0000", "#00ff00", "#0000ff", "#ffff00", "#00ffff", "#ff00ff"],
            ["teal", "navy", "olive", "maroon", "purple"], ["#101010", "#202020", "#f0f0f0", "#808080", "#7f7f7f"]]
    for _ in range(3 if tier != "thorough" else 40):
        sets.append(["#%02x%02x%02x" % (rnd.randrange(256), rnd.randrange(256), rnd.randrange(256)) for _ in range(rnd.randrange(3, 8))])
    for cols in sets:
        for metric in ["CIE76", "CIEDE2000"]:
            argv = ["distinct", "-m", metric, str(len(cols))] + cols
            rc, out, err = run_cli(argv, timeout=120)
            inp = " ".join(argv)
            res.case(inp)
            lines = out.decode().split("\n")[:-1]
            cinf = infos(cols)
            hs = [c.hsl for c in cinf]
            if rc != 0 or sorted(lines) != sorted(hs):
                res.fail("distinct-all-fixed-is-a-permutation", "cli:distinct", inp, "rc=%s %s" % (rc, lines))
                continue
            dm = harness_query(["dmat %s %s" % (metric.lower(), " ".join(hexs(c) for c in cols))])[0]
            if not dm.startswith("ok "):
                res.fail("reference-distances", "pv-harness dmat", inp, dm[:60])
                continue
            k = len(cols)
            mat = [int(x) for x in dm.split(" ")[1].split(",")]
            key = lambda a, b: mat[a * k + b]
            # map printed lines back to input indices (first unused index with that printed form)
            used, order = set(), []
            for ln in lines:
                idx = next(i for i in range(k) if hs[i] == ln and i not in used)
                used.add(idx); order.append(idx)
            res.check(order[0] == 0, "distinct-first-fixed-stays-first", "cli:distinct", inp, lines[0])
            okff = True
            for pos in range(1, k):
                mind = lambda j: min(key(j, p) for p in order[:pos])
                best = max(mind(j) for j in order[pos:])
                if mind(order[pos]) != best:
                    okff = False
                    res.fail("farthest-first-under-the-chosen-metric", "cli:distinct", inp,
                             "position %d holds %s with minimal key %d; %s would have %d" % (pos, lines[pos], mind(order[pos]), [hs[j] for j in order[pos:] if mind(j) == best][:1], best))
                    break
            res.check(okff, "farthest-first-under-the-chosen-metric", "cli:distinct", inp, "")
    # with every colour fixed no entry is eligible: the reported minimal distance is the sentinel, not
    # the distance of a pair of fixed colours
    for argv in [["distinct", "2", "ff0000", "fe0101", "--print-minimal-distance"], ["distinct", "3", "red", "blue", "teal", "--print-minimal-distance"]]:
        rc, out, err = run_cli(argv, timeout=60)
        res.case(" ".join(argv))
        txt = out.decode().strip()
        res.check(rc == 0 and txt.startswith("17976931348623157") and len(txt) > 300, "minimal-distance-ignores-fixed-pairs", "cli:distinct", " ".join(argv), txt[:40])
    for argv, want in [(["distinct", "1"], 1), (["distinct", "0"], 1), (["distinct", "2", "red", "blue", "green"], 1),
                       (["distinct", "x"], 1), (["distinct", "-m", "nope", "3"], 2)]:
        rc, out, err = run_cli(argv, timeout=60)
        res.case(repr(argv))
        res.check(rc == want and out == b"", "distinct-validation", "cli:distinct", repr(argv), "rc=%s out=%r" % (rc, out[:60]))


def c12(res, tier, seed, lib):
    """`pastel format ansi-8bit[-escapecode]` hands every colour to `to_ansi_8bit`: the printed code is in 16..=255
    (also for the RGB values of the 16 system colours) and is the code the Lean model computes."""
    rnd = random.Random(seed)
    def xterm(code):
        if code < 16:
            return [(0, 0, 0), (128, 0, 0), (0, 128, 0), (128, 128, 0), (0, 0, 128), (128, 0, 128), (0, 128, 128), (192, 192, 192),
                    (128, 128, 128), (255, 0, 0), (0, 255, 0), (255, 255, 0), (0, 0, 255), (255, 0, 255), (0, 255, 255), (255, 255, 255)][code]
        if code < 232:
            c = code - 16
            lv = [0, 95, 135, 175, 215, 255]
            return (lv[c // 36], lv[(c // 6) % 6], lv[c % 6])
        g = 8 + 10 * (code - 232)
        return (g, g, g)
    texts = ["rgb(%d,%d,%d)" % xterm(c) for c in range(256)]
    texts += ["rgb(%d,%d,%d)" % (min(255, r + d), g, b) for (r, g, b) in [xterm(c) for c in range(16)] for d in (1, 2)]
    texts += [rand_color_text(rnd) for _ in range(200 if tier != "thorough" else 3000)]
    inf = infos(texts)
    want = model_batch(["ansi to " + i.wire for i in inf])
    for kind in ["ansi-8bit", "ansi-8bit-escapecode"]:
        got = []
        for i in range(0, len(texts), 150):
            rc, out, err = run_cli(["format", kind] + texts[i:i + 150])
            res.check(rc == 0, "exit-0", "cli:format-" + kind, str(texts[i:i + 2]), "rc=%s %r" % (rc, err[-120:]))
            if kind == "ansi-8bit":
                got += re.findall(rb"\\x1b\[38;5;(\d+)m", out)
            else:
                got += re.findall(rb"\x1b\[38;5;(\d+)m", out)
        res.check(len(got) == len(texts), "one-code-per-colour", "cli:format-" + kind, kind, "%d codes for %d colours" % (len(got), len(texts)))
        for t, g, w in zip(texts, got, want):
            code = int(g)
            res.case("format %s %s" % (kind, t), True)
            res.check(16 <= code <= 255, "never-a-system-colour", "cli:format-" + kind, t, "code %d" % code)
            res.model_op()
            if w != "ok %d" % code:
                res.tag("relational-op:model-chose-differently")   # a relation (less than 1.0 from the closest): the harness oracles decide


RUNNERS = {"C12": c12, "C20": c20, "C15": c15, "C04": c04, "C01": c01, "C05": c05, "C07": c07, "C09": c09, "C10": c10, "C02": c02, "C06": c06, "C08": c08, "C13": c13, "C14": c14, "C16": c16, "C17": c17, "C18": c18, "C19": c19}


def run(prop, tier, seed, lib):
    res = Res(prop)
    ok, out = build_binary(lib)
    if not ok:
        res.d["notes"].append("model produced: the pastel binary does not build: " + out[-500:])
        return res.d
    t0 = time.time()
    try:
        RUNNERS[prop](res, tier, seed, lib)
    except Exception:
        # never leave the check without a verdict: an answer of the implementation that the runner cannot
        # interpret means the tie between model and code no longer checks (reported as such, with the trace)
        import traceback
        res.d["notes"].append("model produced: the CLI runner stopped on an answer of the implementation it could not interpret: "
                              + " | ".join(traceback.format_exc().strip().split("\n")[-4:]))
    res.d["wall_s"] = round(time.time() - t0, 2)
    return res.d
