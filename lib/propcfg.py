"""Per-property configuration of ./check: trusted base, counting rule, flags."""

COMMON_TRUST = [
    "Lean 4.33.0 kernel; axioms allowed: propext, Classical.choice, Quot.sound (audited with #print axioms on every property theorem); no sorry/admit/native_decide/bv_decide/user axioms (source scan)",
    "hand-written Lean model (lean/Pastel/Model/*.lean), tied to /repo's working tree by the correspondence check on the inputs this run executed (counts below)",
    "pv-harness (Rust, /verif/harness) and the comparator in it; the `pastel-model` executable compiled by Lean from the same definitions the theorems are about",
    "Lean's compiled Float primitives implement Float.Model; x86-64 double, Rust f64 and glibc libm are the same arithmetic on both sides",
    "binary64 rounding error and libm accuracy are not modelled by any theorem (DESIGN.md §2.2)",
]

PROPS = {
    "C03": {
        "rule": "oracle: every one of the 2^24 8-bit colours (alpha varying with the colour) through 9 to_X/from_X round trips, plus from_u32 on each byte position over its full range and random words; correspondence: to_X/from_X/to_u32/from_u32 on a lattice; a case is non-trivial when the colour is not a gray; distinct by operation text",
        "trust": ["float round trips on the 2^24 lattice are enumerated on the implementation (search), not proved"],
        "assumptions": ["exactness of the XYZ/LMS/Lab/LCh/OkLab round trips depends on float rounding and libm; enumerated, not proved"],
    },
    "C04": {
        "cli": True,
        "model_is_reference": True,
        "reference_note": "the Lean colour model is written from the published definitions; a disagreement beyond 1e-9 (floats) or in an 8-bit channel is the violation",
        "rule": "forward: all coordinates of 8-bit colours (lattice, primaries, threshold neighbours, all grays, random); inverse: coordinate tuples in and far outside the gamut; non-trivial = not a gray (forward) / every tuple (inverse); distinct by operation text",
        "trust": ["the reference evaluation is the Lean model read at Float; its constants are pinned by the theorems"],
    },
    "C05": {
        "cli": True,
        "rule": "complete cross product of the 28-value boundary alphabet in three arguments of each of the 9 float constructors, boundary amounts for every adjustment, boundary fractions for mixing, random arguments; every produced colour goes through the validity oracle; all counted cases are non-trivial (boundary or random arguments)",
        "trust": ["that float rounding never pushes a derived channel outside [0,1] by more than 1e-12 is observed, not proved"],
    },
    "C06": {
        "cli": True,
        "rule": "random and structured colours (HSL-float and 8-bit) x amounts (in range, overshooting, negative, 0, below one ulp, huge); each adjustment on implementation and model; clause-by-clause oracle incl. luminance monotonicity along l-lines; non-trivial = non-zero amount on a chromatic colour strictly inside the lightness range",
        "trust": ["luminance monotonicity under lighten/darken is searched (1e-12 noise allowance), not proved"],
    },
    "C07": {
        "cli": True,
        "rule": "structured pairs (grays, primaries, antipodal hues 179.9/180/180.1, translucent) and random 8-bit / HSL-float pairs x 6 spaces x fractions {0,1,-1,2,NaN,dyadic,random}; non-trivial = distinct operands and 0<f<1",
        "trust": ["the 'at most 1 per channel under swap' clause and endpoint exactness in Lab/LCh/OkLab are float statements: enumerated, not proved"],
    },
    "C09": {
        "cli": True,
        "rule": "oracle on a lattice of every 2nd level per channel (quick, 2^21 colours) or all 2^24 (thorough): strict monotonicity in each channel, text colour, to_gray; contrast on structured and random pairs; all cases distinct by construction",
        "trust": ["luminance is evaluated through libm pow; the 0.179 threshold comparison on floats is enumerated"],
    },
    "C10": {
        "cli": True,
        "rule": "alpha boundary alphabet through every constructor; unary transformations on translucent colours; 7 formatters; compositing on random, same-colour, opaque-source and transparent-source pairs with alpha grid {0,1,1e-9,1-1e-9,k/255,random}; non-trivial = alpha != 1",
        "trust": ["that float rounding of the blended quotient never crosses a half is enumerated, not proved"],
    },
    "C11": {
        "rule": "Lab pairs: the 34 published Sharma pairs, uniform, far-out (1e4), zero-chroma, near hue-difference 180, mean-hue wrap-around, chroma near 25, hue near 275; each pair: cie76, ciede2000 (code vs line-by-line model) and ciede2000 vs the independently written Sharma formula (abs tol 1e-3); non-trivial = distinct points",
        "trust": ["agreement with Sharma et al. within 0.001 is checked numerically on the generated pairs against the model's independent formula; exact 180-degree hue differences are exempt as in the property"],
    },
    "C20": {
        "cli": True,
        "rule": "CLI `colorblind <type>` for the three types vs the model's simulation of that type (printed text exact; 8-bit channels within print rounding of the reference) and argument validation; oracle on every 3rd level per channel (quick) / all 2^24 (thorough) x 3 types: alpha, black, retained cones; correspondence with the Lean model as the independent evaluation on a lattice + random HSL-float colours (8-bit channels within one step = property, exact = tie)",
        "trust": ["the independent evaluation is the Lean model read at Float"],
    },
    "C14": {
        "cli": True,
        "rule": "rearrange_sequence on lists of length 0..40 (duplicates, equidistant) vs brute-force farthest-first; SimulatedAnnealing::with_rng under 6 replayed random streams (seeded, all-zero, all-one, alternating, counter, skewed) x target x mode x metric x every num_fixed in 0..n, n<=6 (quick) / 8; the model consumes the logged raw draws and must end in the same colours and table; distinct_colors with the real RNG; non-trivial = at least one free colour and one iteration",
        "trust": [
                "the model of rand 0.9 StandardUniform/random_range is validated by the correspondence only",
                "ThreadRng is replaced by replayed streams"
        ]
},
    "C15": {
        "cli": True,
        "rule": "small scope: all starting tables of 2..3 (quick) / 2..4 colours over a 6-point alphabet with a duplicate and collinear equidistant points, update sequences of depth 2 (quick, sampled) / 3, every num_fixed; random histories of 300 (quick) / 2000 updates on 2..12 colours with coarse-grid ties; brute-force recomputation after every step; all histories non-trivial (ties/duplicates present)",
        "trust": [
                "needs the pastel_verif hook (DistanceResult::verif_new/verif_update)"
        ]
},
    "C08": {
        "cli": True,
        "rule": "exhaustive: all add-stop histories of length <= 3 (quick) / 4 over positions {0,.25,.5,.5,1,-3,7,NaN} x 3 colours with dump and 9 sample points each; all permutations of random distinct-position histories; random histories up to 40 stops with arbitrary float positions; non-trivial = a repeated or out-of-order position",
        "trust": [
                "stops are read from the Debug rendering of ColorScale",
                "pastel gradient (CLI) is exercised by the C19/C02 CLI runs"
        ]
},
    "C12": {
        "cli": True,
        "rule": "all 256 codes; to_ansi_8bit on every palette colour, all 256 grays, the colorcheck colours, a lattice (step 17 quick / 5 thorough) and random colours, each against brute force over the 240 entries; implementation vs model code exactly",
        "trust": [
                "the Generated table is written by pv-harness gen-ansi from the live code before lake build"
        ],
        "generated": [
                [
                        "gen-ansi",
                        "Pastel/Generated/AnsiTable.lean"
                ]
        ]
},
    "C01": {
        "cli": True,
        "model_is_reference": True,
        "reference_note": "the Lean parser model is the formalisation of the documented grammar (accept/reject and denoted colour); a string on which pastel and the model differ is the failing input",
        "rule": "rendered syntax trees of all ten notations with every separator / blank / case / unit / number-spelling choice (integers, decimals, leading dot, trailing dot, signed, exponent forms, nan/inf spellings, 1e400), Unicode whitespace wrapping, character-level edits from a notation-specific alphabet (incl. KELVIN SIGN, NBSP, emoji), arbitrary ASCII / Unicode / lossy-bytes strings, all 148 names in three casings, a hand-written corpus; non-trivial = accepted string; distribution reports accept/reject per generator",
        "trust": [
                "nom 7.1.3 combinators, str::trim, to_lowercase and str::parse::<f64> are modelled, validated only by the correspondence",
                "the CLI message 'Could not parse color' is checked by the C19 runs"
        ]
},
    "C02": {
        "cli": True,
        "rule": "raw {:.N} and {} formatting of 20k (quick) / 400k floats incl. exact ties; 10 formatters x both spacings on structured colours, a lattice, all 256 hex alpha levels, all 1001 three-decimal alphas, HSL-float colours \u2014 exact string equality with the model; oracle print-then-parse for 7 notations x 2 spacings on every 5th level per channel (quick) / all 2^24 (thorough); non-trivial = alpha != 1 (formatter ops), every colour (oracle)",
        "trust": [
                "Rust's float Display/{:.N} is modelled (exact integer arithmetic on the bit pattern), validated by the correspondence"
        ]
},
    "C13": {
        "rule": "library: every style-flag combination x {24bit, 8bit, off} x colours x texts (ASCII, UTF-8, containing ESC); binary: the complete cross product of 6 flag settings x pipe/pty x 7 PASTEL_COLOR_MODE x 3 NO_COLOR x 4 COLORTERM = 1008 configurations against the model and the rule list; every colour-printing subcommand under 4 colour-off and 4 colour-on settings (ESC scan, reset discipline)",
        "trust": [
                "pty/pipe behaviour of the OS and atty are outside the model; observed"
        ],
        "cli": True
},
    "C16": {
        "rule": "library: generate_with under six replayed streams (seeded uniform 15k quick / 300k thorough per strategy, all-zero, all-one, alternating, counter, skewed), model consumes the logged draws; counting of hue sectors / channel values / gray levels over the uniform stream; CLI: pastel random -n N -s S for N in {0,1,2,10,1000}; all cases non-trivial",
        "trust": [
                "ThreadRng's actual distribution is outside the model",
                "rand 0.9 StandardUniform is modelled, validated by the correspondence"
        ],
        "cli": True
},
    "C17": {
        "rule": "binary: 260 (quick) / 4000 input lists (lengths 0-60, duplicates far apart, equal-key clusters, translucent colours) x 5 keys x -r x -u, as arguments and on stdin; pastel list --sort for the five keys; keys and printed forms come from the library (pv-harness query); non-trivial = at least two colours",
        "trust": [
                "slice::sort_by_key / sort_by_cached_key are modelled as a stable merge sort, dedup_by_key as adjacent-duplicate removal; the key formulas are recomputed through the library"
        ],
        "cli": True,
        "no_harness": True
},
    "C18": {
        "rule": "format name through the binary for all 148 names, 3 RGB neighbours each, a lattice (step 51 quick / 17 thorough) and translucent colours \u2014 against brute force over the table (library) and against the model; pastel color under a pty for named / unnamed / translucent colours",
        "trust": [
                "the Generated table is written by pv-harness gen-named from the live code before lake build"
        ],
        "cli": True,
        "no_harness": True,
        "generated": [
                [
                        "gen-named",
                        "Pastel/Generated/NamedTable.lean"
                ]
        ]
},
    "C19": {
        "rule": "A: modelled family \u2014 13 colour-at-a-time subcommands x valid/invalid amounts, properties, format types x colours (valid, invalid, '-', empty) x stdin scripts (valid, invalid, blank, padded, non-UTF-8, with/without trailing newline, empty): exit + stdout + stderr class + message vs the Lean model; B: oracle-only \u2014 every subcommand (and unknown ones) with defective / missing / repeated / empty / huge / negative / non-UTF-8 arguments, under pipe, /dev/null, binary stdin and pty; C: faults \u2014 reader closing stdout after 0/1/5/100 bytes, closed fd 0, fake pickers on PATH (absent, exit non-zero, garbage, non-UTF-8, empty, valid, prints 'pick'); all cases non-trivial",
        "trust": [
                "kernel pipe/tty/signal delivery, clap 3 internals and std::process are outside the model; exercised, not proved"
        ],
        "cli": True,
        "no_harness": True
},
}
