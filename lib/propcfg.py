"""Per-property configuration of ./check: trusted base, counting rule, flags."""

COMMON_TRUST = [
    "Lean 4.33.0 kernel; axioms allowed: propext, Classical.choice, Quot.sound (audited with #print axioms on every property theorem); no sorry/admit/native_decide/bv_decide/user axioms (source scan)",
    "hand-written Lean model (lean/Pastel/Model/*.lean), tied to /repo's working tree by the correspondence check on the inputs this run executed (counts below)",
    "pv-harness (Rust, /verif/harness) and the comparator in it; the `pastel-model` executable compiled by Lean from the same definitions the theorems are about",
    "Lean's compiled Float primitives implement Float.Model; x86-64 double, Rust f64 and glibc libm are the same arithmetic on both sides",
    "binary64 rounding error and libm accuracy are not modelled by any theorem (DESIGN.md §2.2)",
]

PROPS = {
    "C03": {
        "rule": "oracle: every one of the 2^24 8-bit colours (alpha varying with the colour) through 9 to_X/from_X round trips, plus from_u32 on each byte position over its full range and random words; correspondence: to_X/from_X/to_u32/from_u32 on a lattice; a case is non-trivial when the colour is not a gray; distinct by operation text",
        "trust": ["float round trips on the 2^24 lattice are enumerated on the implementation (search), not proved"],
        "assumptions": ["exactness of the XYZ/LMS/Lab/LCh/OkLab round trips depends on float rounding and libm; enumerated, not proved"],
    },
    "C04": {
        "model_is_reference": True,
        "reference_note": "the Lean colour model is written from the published definitions; a disagreement beyond 1e-9 (floats) or in an 8-bit channel is the violation",
        "rule": "forward: all coordinates of 8-bit colours (lattice, primaries, threshold neighbours, all grays, random); inverse: coordinate tuples in and far outside the gamut; non-trivial = not a gray (forward) / every tuple (inverse); distinct by operation text",
        "trust": ["the reference evaluation is the Lean model read at Float; its constants are pinned by the theorems"],
    },
    "C05": {
        "rule": "complete cross product of the 28-value boundary alphabet in three arguments of each of the 9 float constructors, boundary amounts for every adjustment, boundary fractions for mixing, random arguments; every produced colour goes through the validity oracle; all counted cases are non-trivial (boundary or random arguments)",
        "trust": ["that float rounding never pushes a derived channel outside [0,1] by more than 1e-12 is observed, not proved"],
    },
}
