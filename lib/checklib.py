"""Driver behind ./check (see DESIGN.md §2.4)."""
import fcntl, json, os, re, subprocess, sys, time

VERIF = os.path.dirname(os.path.dirname(os.path.abspath(__file__)))
LEAN = os.path.join(VERIF, "lean")
HARNESS = os.path.join(VERIF, "harness")
BUILD = os.path.join(VERIF, ".build")
REPO = "/repo"
MODEL_EXE = os.path.join(LEAN, ".lake", "build", "bin", "pastel-model")
HARNESS_EXE = os.path.join(BUILD, "harness-target", "release", "pv-harness")
ALLOWED_AXIOMS = {"propext", "Classical.choice", "Quot.sound"}

sys.path.insert(0, os.path.join(VERIF, "lib"))
from propcfg import PROPS, COMMON_TRUST  # noqa: E402


def log(msg):
    print(msg, flush=True)


def run(cmd, cwd=None, env=None, timeout=None, stdin=None):
    e = dict(os.environ)
    e["CARGO_NET_OFFLINE"] = "true"
    if env:
        e.update(env)
    p = subprocess.run(cmd, cwd=cwd, env=e, stdout=subprocess.PIPE, stderr=subprocess.STDOUT,
                       timeout=timeout, input=stdin)
    return p.returncode, p.stdout.decode("utf-8", "replace")


class Lock:
    def __init__(self, name):
        os.makedirs(BUILD, exist_ok=True)
        self.path = os.path.join(BUILD, name + ".lock")

    def __enter__(self):
        self.fh = open(self.path, "w")
        fcntl.flock(self.fh, fcntl.LOCK_EX)
        return self

    def __exit__(self, *a):
        fcntl.flock(self.fh, fcntl.LOCK_UN)
        self.fh.close()


# --------------------------------------------------------------------------- Lean

def strip_comments(text):
    text = re.sub(r"/-.*?-/", "", text, flags=re.S)
    return "\n".join(l.split("--")[0] for l in text.splitlines())


FORBIDDEN = re.compile(r"\bsorry\b|\badmit\b|^\s*axiom\s|native_decide|bv_decide|implemented_by|\bunsafe\s|maxHeartbeats\s+0\b", re.M)


def forbidden_scan():
    hits = []
    for root, _, files in os.walk(os.path.join(LEAN, "Pastel")):
        for f in files:
            if f.endswith(".lean"):
                p = os.path.join(root, f)
                body = strip_comments(open(p, encoding="utf-8").read())
                for m in FORBIDDEN.finditer(body):
                    hits.append("%s: %s" % (os.path.relpath(p, LEAN), m.group(0).strip()))
    return hits


def theorem_names(prop):
    path = os.path.join(LEAN, "Pastel", "Props", prop + ".lean")
    if not os.path.exists(path):
        return []
    body = strip_comments(open(path, encoding="utf-8").read())
    return re.findall(r"^\s*theorem\s+([^\s:({\[]+)", body, flags=re.M)


def lean_build(prop, pre=None):
    """Build the theorem module of `prop` and the model executable. Returns (ok, log)."""
    with Lock("lake"):
        if pre:
            pre()
        targets = ["pastel-model"]
        if os.path.exists(os.path.join(LEAN, "Pastel", "Props", prop + ".lean")):
            targets.insert(0, "Pastel.Props." + prop)
        rc, out = run(["lake", "build"] + targets, cwd=LEAN, timeout=3000)
        return rc == 0, out


def lean_audit(prop):
    """#print axioms for every theorem of Props/<prop>.lean."""
    names = theorem_names(prop)
    if not names:
        return [], {}, "no theorems"
    os.makedirs(os.path.join(BUILD, "audit"), exist_ok=True)
    f = os.path.join(BUILD, "audit", prop + ".lean")
    with open(f, "w") as fh:
        fh.write("import Pastel.Props.%s\n" % prop)
        for n in names:
            fh.write("#print axioms Pastel.%s.%s\n" % (prop, n))
    rc, out = run(["lake", "env", "lean", f], cwd=LEAN, timeout=1200)
    res = {}
    flat = re.sub(r"\s+", " ", out)
    for n in names:
        full = "Pastel.%s.%s" % (prop, n)
        m = re.search(r"'%s' depends on axioms: \[([^\]]*)\]" % re.escape(full), flat)
        if m:
            res[n] = [a.strip() for a in m.group(1).split(",") if a.strip()]
        elif re.search(r"'%s' does not depend on any axioms" % re.escape(full), flat):
            res[n] = []
        else:
            res[n] = None  # theorem missing / did not elaborate
    return names, res, out if rc != 0 else ""


def pastel_imports(mod, seen=None):
    """Transitive closure of the Pastel.* modules imported by `mod` (read from the sources)."""
    seen = seen if seen is not None else []
    if mod in seen:
        return seen
    path = os.path.join(LEAN, *mod.split(".")) + ".lean"
    if not os.path.exists(path):
        return seen
    seen.append(mod)
    for m in re.findall(r"^import\s+(Pastel\.[A-Za-z0-9_.]+)", open(path, encoding="utf-8").read(), flags=re.M):
        pastel_imports(m, seen)
    return seen


def lean_recheck(prop):
    """Thorough tier: replay the compiled declarations of the property module and of every Pastel
    module it depends on through leanchecker (the toolchain's independent re-checker)."""
    mods = pastel_imports("Pastel.Props." + prop)
    if not mods:
        return [], True, ""
    with Lock("lake"):
        rc, out = run(["lake", "env", "leanchecker"] + mods, cwd=LEAN, timeout=3000)
    return mods, rc == 0, out


# --------------------------------------------------------------------------- Rust

def harness_build():
    with Lock("cargo"):
        env = {"CARGO_TARGET_DIR": os.path.join(BUILD, "harness-target"),
               "RUSTFLAGS": "--cfg pastel_verif"}
        rc, out = run(["cargo", "build", "--release", "--offline"], cwd=HARNESS, env=env, timeout=3000)
        return rc == 0, out


def harness_run(prop, tier, seed, extra=None):
    out_dir = os.path.join(BUILD, "run", "%s-%s" % (prop, tier))
    os.makedirs(out_dir, exist_ok=True)
    cmd = [HARNESS_EXE, prop, "--tier", tier, "--seed", str(seed), "--model", MODEL_EXE, "--out", out_dir]
    if extra:
        cmd += extra
    p = subprocess.run(cmd, stdout=subprocess.PIPE, stderr=subprocess.PIPE, timeout=6 * 3600)
    try:
        return json.loads(p.stdout.decode("utf-8", "replace")), p.stderr.decode("utf-8", "replace")
    except Exception as e:  # noqa
        return None, "harness exit %s: %s\n%s" % (p.returncode, e, p.stderr.decode("utf-8", "replace")[-2000:])


# --------------------------------------------------------------------------- findings

def merge_counts(dicts):
    out = {}
    for d in dicts:
        for k, v in d.items():
            out[k] = out.get(k, 0) + v
    return out


def load_known():
    p = os.path.join(VERIF, "known_findings.json")
    if not os.path.exists(p):
        return []
    return json.load(open(p)).get("findings", [])


def match_known(prop, fail, known):
    """A failure is known only if property, clause and site match and, when the
    finding pins inputs, the failing input matches its pattern."""
    for k in known:
        if k.get("status") != "open":
            continue
        if k["property"] != prop or k["site"] != fail["site"]:
            continue
        if k.get("clause") and k["clause"] != fail["clause"]:
            continue
        pat = k.get("input_regex")
        if pat and not re.search(pat, fail["input"]):
            continue
        return k
    return None


# --------------------------------------------------------------------------- main

def write_replay(prop, tier, seed, kind, payload):
    d = os.path.join(VERIF, "replays")
    os.makedirs(d, exist_ok=True)
    path = os.path.join(d, "%s-%s-%s.json" % (prop, tier, kind))
    with open(path, "w") as fh:
        json.dump({"property": prop, "tier": tier, "seed": seed, "kind": kind, **payload}, fh, indent=1)
    return path


def main(argv):
    if not argv:
        print(__doc__)
        return 2
    prop = argv[0]
    tier = os.environ.get("VERIF_TIER", "quick")
    replay = None
    i = 1
    while i < len(argv):
        if argv[i] == "--tier":
            tier = argv[i + 1]; i += 2
        elif argv[i] == "--replay":
            replay = argv[i + 1]; i += 2
        else:
            print("unknown argument", argv[i]); return 2
    if prop not in PROPS:
        print("unknown property", prop); return 2
    cfg = PROPS[prop]
    seed = int(os.environ.get("VERIF_SEED", "1") or "1")
    if replay:
        r = json.load(open(replay))
        seed, tier = r.get("seed", seed), r.get("tier", tier)
        log("replaying %s: seed=%s tier=%s kind=%s" % (replay, seed, tier, r.get("kind")))
    t0 = time.time()
    problems = []     # things that break the tie or a proof: (kind, description, payload)

    # ---- 0. Rust harness against the current working tree (also generates the tables) ----
    okb, outb = harness_build()
    if not okb:
        log(outb[-3000:])
        problems.append(("correspondence", "the harness does not build against /repo's working tree",
                         {"log_tail": outb[-1500:]}))

    # ---- 1. Lean: generated tables, theorems + model executable ----
    # every generated table is rewritten from the live code on every check, whichever property is
    # being checked (a stale table from an earlier tree must never reach a build)
    gen = [g for c in PROPS.values() for g in c.get("generated", [])]
    def pre():
        if gen and okb:
            for sub, rel in gen:
                rc, out = run([HARNESS_EXE, sub])
                path = os.path.join(LEAN, rel)
                if rc == 0 and out.strip():
                    old = open(path).read() if os.path.exists(path) else None
                    if old != out:
                        os.makedirs(os.path.dirname(path), exist_ok=True)
                        with open(path, "w") as fh:
                            fh.write(out)
                else:
                    problems.append(("correspondence", "table generator %s failed" % sub, {"log_tail": out[-500:]}))
    ok, out = lean_build(prop, pre)
    names, axioms, audit_err = ([], {}, "")
    if not ok:
        log(out[-3000:])
        problems.append(("proof", "lake build of Pastel.Props.%s / pastel-model failed" % prop,
                         {"theorem_module": "Pastel.Props." + prop, "log_tail": out[-1500:]}))
        names = theorem_names(prop)
        axioms = {n: None for n in names}
    else:
        names, axioms, audit_err = lean_audit(prop)
    discharged = 0
    for n in names:
        ax = axioms.get(n)
        if ax is None:
            problems.append(("proof", "theorem %s did not check" % n, {"theorem": "Pastel.%s.%s" % (prop, n)}))
        elif not set(ax) <= ALLOWED_AXIOMS:
            problems.append(("proof", "theorem %s uses axioms %s" % (n, ax), {"theorem": "Pastel.%s.%s" % (prop, n)}))
        else:
            discharged += 1
    rechecked = []
    if ok and tier == "thorough":
        rechecked, okr, outr = lean_recheck(prop)
        if not okr:
            problems.append(("proof", "leanchecker rejects a compiled module of Pastel.Props.%s" % prop, {"log_tail": outr[-1500:]}))
            discharged = 0
    hits = forbidden_scan()
    if hits:
        problems.append(("proof", "forbidden constructs in Lean sources: %s" % hits[:5], {"hits": hits}))
        discharged = 0

    # ---- 2. run the harness: correspondence + direct oracle ----
    res = None
    if okb and os.path.exists(MODEL_EXE) and not cfg.get("no_harness"):
        res, err = harness_run(prop, tier, seed)
        if res is None:
            problems.append(("correspondence", "harness run failed: " + err[-800:], {}))

    # ---- optional CLI-level part ----
    cli = None
    if cfg.get("cli"):
        import clirun
        cli = clirun.run(prop, tier, seed, sys.modules[__name__])

    # ---- 3. verdict ----
    known = load_known()
    new_fail, known_hits = [], {}
    n_dis = 0
    dis = []
    parts = [p for p in (res, cli) if p]
    for part in parts:
        n_dis += part.get("n_disagreements", 0)
        dis += part.get("disagreements", [])
        for f in part.get("oracle_failures", []):
            k = match_known(prop, f, known)
            if k is not None:
                known_hits.setdefault(k["id"], (k, f))
            else:
                new_fail.append(f)
        # failures beyond the recorded examples: every (clause|site) bucket must be known
        recorded = {(f["clause"], f["site"]) for f in part.get("oracle_failures", [])}
        for key, n in part.get("oracle_failures_by_site", {}).items():
            clause, site = key.split("|", 1)
            if (clause, site) not in recorded:
                new_fail.append({"clause": clause, "site": site, "input": "(not recorded)", "detail": "%d failures" % n})
        for note in part.get("notes", []):
            if "model produced" in note or "failed to start" in note:
                problems.append(("correspondence", note, {}))
    for k, f in known_hits.values():
        print("KNOWN-FINDING: property=%s %s [%s; e.g. %s -> %s]" % (prop, k["what"], k["site"], f["input"], f["detail"]))

    model_is_reference = cfg.get("model_is_reference", False)
    violations = 0
    rc = 0
    if new_fail:
        violations = len(new_fail)
        path = write_replay(prop, tier, seed, "oracle", {"failures": new_fail[:20], "note": "direct oracle on the implementation"})
        f = new_fail[0]
        log("violated clause %s at %s: %s -> %s" % (f["clause"], f["site"], f["input"], f["detail"]))
        print("VIOLATION property=%s replay=%s" % (prop, os.path.relpath(path, VERIF)))
        rc = 1
    elif n_dis and model_is_reference:
        violations = n_dis
        path = write_replay(prop, tier, seed, "reference-disagreement",
                            {"disagreements": dis[:20], "note": cfg.get("reference_note", "the Lean model is the independent reference evaluation this property names")})
        d = dis[0] if dis else {}
        log("implementation differs from the reference evaluation: %s\n  impl : %s\n  model: %s" % (d.get("op"), d.get("implementation"), d.get("model")))
        print("VIOLATION property=%s replay=%s" % (prop, os.path.relpath(path, VERIF)))
        rc = 1
    elif n_dis or problems:
        violations = n_dis + len(problems)
        payload = {"broken": [{"kind": k, "what": w, **p} for k, w, p in problems],
                   "disagreements": dis[:20],
                   "note": "the tie between model and code (or a proof obligation) no longer checks; the direct oracle found no failing input"}
        path = write_replay(prop, tier, seed, "unverified", payload)
        for k, w, _ in problems:
            log("%s broken: %s" % (k, w))
        for d in dis[:3]:
            log("model/implementation disagreement on: %s\n  impl : %s\n  model: %s" % (d.get("op"), d.get("implementation"), d.get("model")))
        print("VIOLATION property=%s replay=%s no-failing-input-found" % (prop, os.path.relpath(path, VERIF)))
        rc = 1

    # ---- 4. evidence ----
    cov = {
        "obligations": len(names),
        "discharged": discharged,
        "checker_cmd": "cd /verif/lean && lake build Pastel.Props.%s && lake env lean ../.build/audit/%s.lean  (#print axioms of every theorem)" % (prop, prop),
        "trusted_base": COMMON_TRUST + cfg.get("trust", []),
        "theorems": [{"name": n, "axioms": axioms.get(n)} for n in names],
        "rule": cfg.get("rule", ""),
        "leanchecker_replayed_modules": rechecked,
        "evaluations": sum(p.get("evaluations", 0) for p in parts),
        "distinct_nontrivial": sum(p.get("distinct_nontrivial", 0) for p in parts),
        "model_ops_compared": sum(p.get("model_ops", 0) for p in parts),
        "oracle_checks": sum(p.get("oracle_checks", 0) for p in parts),
        "oracle_clauses": merge_counts([p.get("oracle_clauses", {}) for p in parts]),
        "disagreements_checked": n_dis,
        "bitwise_mismatches": sum(p.get("bitwise_mismatches", 0) for p in parts),
        "float_fields_compared": sum(p.get("float_fields", 0) for p in parts),
        "known_findings_hit": sorted(known_hits.keys()),
        "samples": sum((p.get("samples", []) for p in parts), [])[:12] or ["theorem " + n for n in names[:5]],
        "distribution": {k: v for p in parts for k, v in p.get("distribution", {}).items()},
        "exhaustive_parts": sum((p.get("exhaustive", []) for p in parts), []),
        "exhaustive": bool(parts) and all(bool(p.get("exhaustive")) for p in parts) and cfg.get("exhaustive_claim", False),
        "explanation": cfg.get("explanation", ""),
    }
    ev = {
        "property_id": prop,
        "tier": tier,
        "seed": seed,
        "level": "proof",
        "coverage": cov,
        "assumptions": cfg.get("assumptions", []),
        "wall_s": round(time.time() - t0, 2),
        "violations": violations,
    }
    os.makedirs(os.path.join(VERIF, "evidence"), exist_ok=True)
    with open(os.path.join(VERIF, "evidence", prop + ".json"), "w") as fh:
        json.dump(ev, fh, indent=1)
    log("%s %s: %d/%d theorems, %d evaluations (%d model ops, %d oracle checks), %d disagreements, %d new oracle failures, %.1fs" % (
        prop, tier, discharged, len(names), cov["evaluations"], cov["model_ops_compared"], cov["oracle_checks"], n_dis, len(new_fail), time.time() - t0))
    return rc
