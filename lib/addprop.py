#!/usr/bin/env python3
"""usage: addprop.py ID 'level text' 'design ref' 'rule' 'trust1|trust2' [flags json]"""
import json, sys, re
pid, text, ref, rule, trust = sys.argv[1:6]
flags = json.loads(sys.argv[6]) if len(sys.argv) > 6 else {}
p = '/verif/lib/propcfg.py'
s = open(p).read().rstrip()
assert s.endswith('}')
entry = {"rule": rule, "trust": [t for t in trust.split('|') if t]}
entry.update(flags)
body = json.dumps(entry, indent=8).replace('true', 'True').replace('false', 'False')
if '"%s":' % pid in s:
    print('already in propcfg'); 
else:
    s = s[:-1] + '    "%s": %s,\n}\n' % (pid, body)
    open(p, 'w').write(s)
m = json.load(open('/verif/MANIFEST.json'))
if pid not in {c['property_id'] for c in m['checks']}:
    m['checks'].append({
      "property_id": pid,
      "quick_cmd": "./check %s --tier quick" % pid,
      "thorough_cmd": "./check %s --tier thorough" % pid,
      "evidence_file": "evidence/%s.json" % pid,
      "replay_cmd_template": "./check %s --replay {path}" % pid,
      "engine": "lean-model+correspondence",
      "level_claimed": {"category": "proof", "text": text, "design_ref": "DESIGN.md " + ref},
      "level_note": "trusted base in evidence.coverage.trusted_base; what is proved vs. searched is stated in level_claimed.text and DESIGN.md",
      "technique": "Lean 4 theorems about a hand-written model + differential correspondence check (Rust harness vs compiled model) + direct oracle",
    })
m['checks'].sort(key=lambda c: c['property_id'])
claimed = {c['property_id'] for c in m['checks']}
m['not_applicable'] = [n for n in m.get('not_applicable', []) if n['property_id'] not in claimed]
m['engines'][0]['serves_properties'] = sorted(claimed)
json.dump(m, open('/verif/MANIFEST.json', 'w'), indent=1)
print('ok', sorted(claimed))
