#!/bin/bash
# usage: seedtest.sh <seed-dir-name> <property> [more properties...]
# Applies /verif/seeded/<name>/patch.diff to /repo, runs ./check for each property (quick), reverts.
name=$1; shift
d=/verif/seeded/$name
[ -f $d/patch.diff ] || { echo "no patch in $d"; exit 2; }
if ! git -C /repo diff --quiet; then echo "/repo has uncommitted changes"; exit 2; fi
git -C /repo apply $d/patch.diff || { echo "patch does not apply"; exit 2; }
# evidence/ and replays/ written while a patch is applied describe the patched tree, not /repo: keep the clean ones
bak=$(mktemp -d /verif/.build/evbak.XXXXXX); cp -a /verif/evidence $bak/evidence; cp -a /verif/replays $bak/replays 2>/dev/null
trap 'git -C /repo checkout -- . ; git -C /repo status --short; rm -rf /verif/evidence /verif/replays; mv $bak/evidence /verif/evidence; [ -d $bak/replays ] && mv $bak/replays /verif/replays; rm -rf $bak' EXIT
for p in "$@"; do
  out=$(cd /verif && ./check $p --tier quick 2>&1)
  rc=$?
  echo "== $name vs $p: rc=$rc"
  echo "$out" | grep -E "^VIOLATION|^KNOWN|violated clause|broken:|disagreement on|differs from" | head -6
done
