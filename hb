#!/bin/sh
# build the harness the way ./check does
cd /verif/harness && CARGO_NET_OFFLINE=true CARGO_TARGET_DIR=/verif/.build/harness-target RUSTFLAGS="--cfg pastel_verif" cargo build --release --offline 2>&1 | grep -E "^error|^warning: unus|-->|Finished" | head -${1:-30}
